/-
  Layer `CvFix` × vector clocks: the facts about the ACCEPTOR (no clocks yet) that the clock
  invariant needs.
    `woken_entry`     a record enters status `woken` only through `ATM_STORE_REL (&p_nw->waiting, 0)`
                      [cv.c/5] of the waker on whose list it is; its unlinkers do not change;
    `woken_no_store`  while a record is `woken`, no accepted event is a plain store to its
                      `waiting` flag (the release sequence headed by the waker's store is intact);
    `wordSt_rel`      every accepted store to the cv word is at a release site.
-/
import NsyncVerif.Proofs.CvFixVC

namespace NsyncVerif.CvFix

/-! ### entering `woken` -/

/-- What happens to a record that is `woken` after a transition. -/
def WokenEntry (s : State) (e : Event) (s' : State) (r : Rid) : Prop :=
  ((s.recs r).stat = .woken ∧ (s'.recs r).unl = (s.recs r).unl) ∨
  (∃ t obs, e = .recSt t .wake r 0 obs ∧ (s.recs r).stat = .listed t ∧ (s'.recs r).unl = (s.recs r).unl)

theorem we_same {s s' : State} {e : Event} (h : s'.recs = s.recs) (r : Rid)
    (hw : (s'.recs r).stat = .woken) : WokenEntry s e s' r := by
  rw [h] at hw; exact .inl ⟨hw, by rw [h]⟩

/-- One record changes, and it is not `woken` afterwards. -/
theorem we_one {s s' : State} {e : Event} {r0 : Rid} (ho : ∀ q, q ≠ r0 → s'.recs q = s.recs q)
    (h0 : (s'.recs r0).stat ≠ .woken) (r : Rid) (hw : (s'.recs r).stat = .woken) :
    WokenEntry s e s' r := by
  by_cases hr : r = r0
  · subst hr; exact absurd hw h0
  · rw [ho r hr] at hw; exact .inl ⟨hw, by rw [ho r hr]⟩

/-- One record changes, keeping status and unlinkers. -/
theorem we_keep {s s' : State} {e : Event} {r0 : Rid} (ho : ∀ q, q ≠ r0 → s'.recs q = s.recs q)
    (h0 : (s'.recs r0).stat = (s.recs r0).stat ∧ (s'.recs r0).unl = (s.recs r0).unl) (r : Rid)
    (hw : (s'.recs r).stat = .woken) : WokenEntry s e s' r := by
  by_cases hr : r = r0
  · subst hr; rw [h0.1] at hw; exact .inl ⟨hw, h0.2⟩
  · rw [ho r hr] at hw; exact .inl ⟨hw, by rw [ho r hr]⟩

theorem woken_entry {cfg : Config} {s s' : State} {e : Event} (ha : InvA s) (h : Tr cfg s e s')
    (r : Rid) (hw : (s'.recs r).stat = .woken) : WokenEntry s e s' r := by
  cases h with
  | same e h => exact we_same rfl r hw
  | tick ns h => exact we_same rfl r hw
  | semOther e sem' h => exact we_same rfl r hw
  | loc h => exact we_same rfl r hw
  | acq t exp new obs o n hl hexp hw' he ho hn hnew =>
    unfold afterAcquire at hw ⊢
    split at hw
    · exact we_one (r0 := (s.thr t).r) (fun q hq => by simp [hq]) (by simp) r hw
    · exact we_same rfl r hw
    · exact we_same rfl r hw
    · exact we_same rfl r hw
    · dsimp only at hw ⊢
      by_cases hq : (if (s.thr t).bcast = true then s.queue else sigSelect s.recs s.queue).contains r = true
      · simp only [hq, if_true] at hw; cases hw
      · simp only [hq] at hw
        exact .inl ⟨hw, by simp only [hq]; rfl⟩
  | relWait t new obs n hl hh hnew hn hsp =>
    exact we_keep (r0 := (s.thr t).r) (fun q hq => by simp [hq]) (by simp) r hw
  | relEnq t new obs n hl hh hnew hn hsp =>
    exact we_keep (r0 := (s.thr t).r) (fun q hq => by simp [hq]) (by simp) r hw
  | relWait2 t new obs n hl hh hnew hn hsp => exact we_same rfl r hw
  | relSig t site new obs n hl hs hh hnew hn hsp => exact we_same rfl r hw
  | relDeq t new obs n hl hh hnew hn hsp =>
    refine we_one (r0 := (s.thr t).r) (fun q hq => by simp [hq]) ?_ r hw
    simp; cases (s.recs (s.thr t).r).stat <;> simp
  | relDeqW t new obs n hl hh hnew hn hsp => exact we_same rfl r hw
  | relDbg t new obs n hl hh hnew hn hsp => exact we_same rfl r hw
  | wHeadExit t r0 y hy hl hr hw' =>
    exact we_one (r0 := r0) (fun q hq => by simp [hq]) (by simp) r hw
  | wCmpEq t r0 obs hl hr ho he =>
    exact we_one (r0 := r0) (fun q hq => by simp [hq]) (by simp) r hw
  | deqLdQueued t r0 obs hl hr hw' hq =>
    exact we_one (r0 := r0) (fun q hq => by simp [hq]) (by simp) r hw
  | deqSpinExit t r0 hl hr hw' =>
    refine we_one (r0 := r0) (fun q hq => by simp [hq]) ?_ r hw
    simp; cases (s.recs r0).stat <;> simp
  | wSt1 t r0 obs hl hm hst =>
    exact we_one (r0 := r0) (fun q hq => by simp [hq]) (by simp) r hw
  | wClr t r0 obs hl hr =>
    exact we_keep (r0 := r0) (fun q hq => by simp [hq]) (by simp) r hw
  | wake t r0 obs hl hr =>
    have hst : (s.recs r0).stat = .listed t := (ha.lMem t r0).mp (head_mem' hr)
    by_cases hq : r = r0
    · subst hq
      exact .inr ⟨t, obs, rfl, hst, by simp⟩
    · simp only [setThr_recs, setRec_recs, hq, if_false] at hw ⊢
      exact .inl ⟨hw, by simp [hq]⟩
  | enqSt t r0 obs hl hm hst ho he =>
    exact we_one (r0 := r0) (fun q hq => by simp [hq]) (by simp) r hw
  | deqSt t r0 obs hl hr =>
    exact we_keep (r0 := r0) (fun q hq => by simp [hq]) (by simp) r hw
  | wRmCasOk t r0 exp new obs hl hr hn ho he =>
    exact we_keep (r0 := r0) (fun q hq => by simp [hq]) (by simp) r hw
  | sRcCasOk t site r0 exp new obs hl hr hn ho he =>
    exact we_keep (r0 := r0) (fun q hq => by simp [hq]) (by simp) r hw
  | muMode t obs lt hl hlt =>
    exact we_keep (r0 := (s.thr t).r) (fun q hq => by simp [hq]) (by simp) r hw
  | wwCasOk t exp new obs f rest hl hlist =>
    dsimp only at hw ⊢
    by_cases hq : (transferSet s.recs (firstCantAcquire (s.recs f).lt exp) (s.thr t).list).contains r = true
    · simp only [hq, if_true] at hw; cases hw
    · simp only [hq] at hw
      exact .inl ⟨hw, by simp only [hq]; rfl⟩
  | semVWake t k r0 q hl hc =>
    exact we_keep (r0 := r0) (fun q hq => by simp [hq]) (by simp) r hw
  | semPdRetOkW t k hl => exact we_same rfl r hw
  | semPdRetOkC t k hl => exact we_same rfl r hw
  | wInit t r0 hl hm hst =>
    exact we_keep (r0 := r0) (fun q hq => by simp [hq]) (by simp) r hw
  | nwInit t r0 hl hm hst =>
    exact we_keep (r0 := r0) (fun q hq => by simp [hq]) (by simp) r hw
  | fStW t r0 new hl hf' =>
    exact we_keep (r0 := r0) (fun q hq => by simp [hq]) (by simp) r hw
  | fCasOk t r0 exp new obs hl hf' hn ho he =>
    exact we_keep (r0 := r0) (fun q hq => by simp [hq]) (by simp) r hw

/-! ### no plain store to the flag of a woken record -/

theorem woken_no_store {cfg : Config} {s s' : State} {e : Event} (hi : Inv s)
    (hs : step cfg s e = .ok s') (r : Rid) (hw : (s.recs r).stat = .woken) :
    stOn e ≠ some (.fld r .waiting) := by
  intro hst
  cases e <;> simp only [stOn, Option.some.injEq, VLoc.fld.injEq, reduceCtorEq] at hst
  case recSt t site r' new obs =>
    obtain ⟨rfl, _⟩ := hst
    have htr := step_tr hs
    cases htr with
    | same e h => simp [touches] at h; split at h <;> simp at h
    | semOther e sem' h => simp [touches] at h; split at h <;> simp at h
    | loc h => cases h
    | wSt1 t r0 obs hl hm hst => rw [hst] at hw; cases hw
    | wClr t r0 obs hl hr =>
      have := (hi.a.thr t).selfO (.inr (.inr hl)); rw [← hr, hw] at this; cases this
    | wake t r0 obs hl hr =>
      have := (hi.a.lMem t r').mp (head_mem' hr); rw [hw] at this; cases this
    | enqSt t r0 obs hl hm hst ho he => rw [hst] at hw; cases hw
    | deqSt t r0 obs hl hr =>
      have := (hi.b.thr t).deqS hl; rw [← hr, hw] at this; cases this
  case wInit t r' => exact hst.2
  case nwInit t r' =>
    obtain ⟨rfl, _⟩ := hst
    simp only [step, need_ok] at hs
    rw [hw] at hs; exact absurd hs.2.2.1 (by simp)
  case fSt t r' f new =>
    obtain ⟨rfl, _⟩ := hst
    simp only [step, need_ok] at hs
    have := hs.2.1
    simp [foreignOk, hw] at this

/-! ### stores to the cv word -/

theorem wordSt_rel {cfg : Config} {s s' : State} {t : Tid} {site : WSite} {new obs : Nat}
    (hs : step cfg s (.wordSt t site new obs) = .ok s') : (siteOrd (wSite site)).isRel = true := by
  simp only [step] at hs
  unfold stepWordSt at hs
  cases site <;> first
    | rfl
    | (exfalso; dsimp only at hs; cases hs)

end NsyncVerif.CvFix
