/-
  Proofs/WaitNSem3.lean — `ClrEff`: who clears the `waiting` field of a record, and what the clearing thread
  owes afterwards.  `waiting` goes from 1 to 0 only
  * in the store of a waker (cv signaller on the head of its wake list; note / counter waker popping the head of
    the queue of a ready object) — and then that thread has the pending post `post u = some r`, i.e. its next
    semaphore operation is the V for that record;
  * in the owner's own dequeue / enqueue store;
  * at the (re-)initialisation of a dead record.
-/
import NsyncVerif.Proofs.WaitNSem2

set_option linter.unusedSimpArgs false
set_option linter.unusedVariables false

namespace WaitN

def ClrEff (s s' : State) (u : Tid) : Prop :=
  ∀ r, (s.rcd r).waiting = true → (s'.rcd r).waiting = false →
    (s'.post u = some r ∧ ((∃ c bc l, s.pc u = .sg c bc (.wake l) ∧ s.post u = none ∧ l.head? = some r)
                            ∨ wakeable (s.rcd r).obj (s'.obj (s.rcd r).obj) = true))
    ∨ (∃ j, (s.pc u = .wDeqCv j .store ∨ (∃ b, s.pc u = .wDeq j (.store b)) ∨ (∃ b, s.pc u = .wEnq j (.store b)))
          ∧ (s.fr u).recs[j]? = some r)
    ∨ (s.rcd r).live = false

theorem ClrEff.of_eq {s s' : State} {u : Tid} (hr : s'.rcd = s.rcd) : ClrEff s s' u := by
  intro r h1 h2; rw [hr, h1] at h2; cases h2

theorem ClrEff.of_eq3 {s s' : State} {u : Tid} (hr : s'.obj = s.obj ∧ s'.rcd = s.rcd ∧ s'.now = s.now) : ClrEff s s' u :=
  ClrEff.of_eq hr.2.1

theorem clr_spinAcq {s s' : State} {t : Tid} {c : Nat} {st : SpinSt} {mk : SpinSt → PC} {done : PC} {e : Ev}
    (h : spinAcq s t c st mk done e = .ok s') : ClrEff s s' t := by
  unfold spinAcq at h
  split_ok h
  all_goals first
    | exact ClrEff.of_eq3 (shared_dflt h)
    | (cases h; exact ClrEff.of_eq rfl)

macro "clr_leaf" h:ident : tactic =>
  `(tactic| first
    | exact ClrEff.of_eq3 (shared_dflt $h)
    | exact ClrEff.of_eq3 (shared_rtDone $h)
    | exact ClrEff.of_eq3 (shared_deqDone $h)
    | exact ClrEff.of_eq3 (shared_afterEnq $h)
    | exact clr_spinAcq $h
    | (cases $h:ident; first
        | exact ClrEff.of_eq rfl
        | (apply ClrEff.of_eq; unfold startScan; rfl)
        | (apply ClrEff.of_eq; simp only [setPc_rcd, setPost_rcd, setSem_rcd, setFr_rcd, setMc_rcd, setObj_rcd]
           first
             | exact rcd_postSem ‹postSem _ _ _ = some _›
             | exact rcd_bindSem ‹bindSem _ _ _ = some _›)))

/-- explicit `s'` that differs from `s` in one record -/
macro "clr_tac" : tactic =>
  `(tactic| (intro x <;> simp <;> (try split) <;> (try simp_all)))

theorem clr_proto {s s' : State} {t : Tid} {e : Ev} (h : proto s t e = .ok s') : ClrEff s s' t := by
  unfold proto at h
  split_ok h
  all_goals try clr_leaf h
  · cases h
    rename_i r new obs h1 tl hq hc
    intro x hx1 hx2
    simp only [setPost_rcd, setRec_rcd, setObj_rcd] at hx2
    split at hx2
    · rename_i hxr; subst hxr
      left
      refine ⟨by simp, .inr ?_⟩
      simp only [setPost_obj, setRec_obj, setObj_obj, if_true]
      have := hc.2.2.2.1
      cases ho : (s.rcd x).obj <;> simp [wakeable, ho] at this ⊢ <;> exact this
    · rw [hx1] at hx2; cases hx2

theorem clr_stepOpen {s s' : State} {t : Tid} {e : Ev} (h : stepOpen s t e = .ok s') : ClrEff s s' t := by
  unfold stepOpen at h
  split_ok h <;> first | exact clr_proto h | clr_leaf h

macro "clr_leaf2" h:ident : tactic =>
  `(tactic| first
    | clr_leaf $h
    | exact clr_stepOpen $h
    | exact clr_proto $h
    | (have hsh := shared_deqDone $h; refine fun x hx1 hx2 => ?_; rw [hsh.2.1] at hx2; revert x; clr_tac; done)
    | (have hsh := shared_afterEnq $h; refine fun x hx1 hx2 => ?_; rw [hsh.2.1] at hx2; revert x; clr_tac; done)
    | (cases $h:ident; clr_tac; done))

end WaitN
