import NsyncVerif.Proofs.MuQBasic
/-
  MuQ: the role abstraction.

  Every invariant of the layer depends on a thread's program point only through its ROLE
  (`role : PC → Role`: which phase of lock_slow with which locals, which private list of
  unlock_slow) and through the share it owns (`tshare`).  `abs : State → AState` forgets the rest
  (expected words carried by CAS program points, lock modes of fast paths, …).  `AStep` lists the
  role-changing transitions; `MuQRefine*.lean` prove that every accepted step of the model is
  either invisible (`abs s' = abs s`) or one `AStep`.  The invariants are then proved over
  `AStep` only.
-/
namespace NsyncVerif.MuQ

inductive Phase | pre | st | rel | loopLd | loopP
deriving DecidableEq, Repr

inductive Role
  | quiet
  | slow (c : SL) (ph : Phase)
  | scan (sc : Scan)                       -- unlock_slow, between grab CAS and end of the scan (spinlock held)
  | fin (f : Fin)                          -- unlock_slow, scan finished, final CAS pending (spinlock held)
  | wakeSt (k : Wid) (r : List Wid)        -- `waiting := 0` of k pending, then r
  | wakeV (k : Wid) (r : List Wid)         -- V of k pending, then r
deriving DecidableEq, Repr

def role : PC → Role
  | .lsLd c | .lsCasAcq c _ | .lsCasEnq c _ => .slow c .pre
  | .lsSt c => .slow c .st
  | .lsRelLd c | .lsRelCas c _ => .slow c .rel
  | .lsWaitLd c => .slow c .loopLd
  | .lsPEnter c | .lsPRet c => .slow c .loopP
  | .usRcLd _ sc _ | .usRcCas _ sc _ _ => .scan sc
  | .usFinLd _ f | .usFinCas _ f _ => .fin f
  | .usWakeSt _ k r => .wakeSt k r
  | .usWakeV _ k r => .wakeV k r
  | _ => .quiet

/-- The share a program point owns in the word (before the client sees it / after the client gave it up). -/
def pcShare : PC → Option Mode
  | .lkRet l => some l
  | .tryRet l true => some l
  | .ulCas0 l | .ulLd l | .ulCas1 l _ => some l
  | .usLd l | .usCasUnc l _ | .usCasGrab l _ => some l
  | _ => none

def tshare (held : Option Mode) (p : PC) : Option Mode :=
  match held with
  | some m => some m
  | none => pcShare p

def Role.spin : Role → Bool
  | .slow _ .st | .slow _ .rel | .scan _ | .fin _ => true
  | _ => false

/-- Waiters this thread has removed from the queue and whose `waiting` it has still to clear. -/
def Role.wake : Role → List Wid
  | .scan sc => sc.wake
  | .fin f => f.wake
  | .wakeSt k r => k :: r
  | .wakeV _ r => r
  | _ => []

def roleAfter : List Wid → Role
  | [] => .quiet
  | k :: r => .wakeSt k r

structure AState where
  word : Word
  queue : List Wid
  wr : Wid → WRec
  wOwner : Option Tid
  rOwners : List Tid
  sp : Option Tid
  ts : Tid → Option Mode
  ro : Tid → Role

def abs (s : State) : AState :=
  { word := s.word, queue := s.queue, wr := s.wr, wOwner := s.wOwner, rOwners := s.rOwners, sp := s.sp,
    ts := fun t => tshare (s.held t) (s.pc t), ro := fun t => role (s.pc t) }

def AState.addShare (a : AState) (t : Tid) : Mode → AState
  | .W => { a with wOwner := some t, ts := setFn a.ts t (some .W) }
  | .R => { a with rOwners := t :: a.rOwners, ts := setFn a.ts t (some .R) }

def AState.subShare (a : AState) (t : Tid) : Mode → AState
  | .W => { a with wOwner := none, ts := setFn a.ts t none }
  | .R => { a with rOwners := a.rOwners.erase t, ts := setFn a.ts t none }

def AState.dropW (a : AState) : Option Wid → AState
  | none => a
  | some k => { a with wr := setFn a.wr k { a.wr k with owner := none } }

def AState.semPost (cfg : Cfg) (a : AState) (k : Wid) : AState :=
  { a with wr := setFn a.wr k { a.wr k with sem := if cfg.binary then 1 else (a.wr k).sem + 1 } }

def AState.advance (a : AState) (t : Tid) (sc : Scan) : AState :=
  match scanGo (fun k => (a.wr k).lType) sc.todo sc with
  | .remove k sc' => { a with queue := a.queue.erase k, ro := setFn a.ro t (.scan sc') }
  | .done sc' => { a with ro := setFn a.ro t (.fin (mkFin sc' a.queue.isEmpty)) }

def scan0 (q : List Wid) : Scan := { wake := [], todo := q, wt := none, sww := false, saf := true }

/-- Condition under which a release CAS that does not take the spinlock can have been attempted:
    first CAS of unlock/runlock (`old = addWord l`), second CAS, uncontended CAS of unlock_slow. -/
def relCond (old : Word) : Prop :=
  old.waiting = true → old.desig = true ∨ old.readers > 1 ∨ old.af = true

inductive AStep (cfg : Cfg) : AState → AState → Prop
  | acqFresh (a : AState) (t : Tid) (l : Mode) :
      a.ro t = .quiet → a.ts t = none → blocked l false a.word = false →
      AStep cfg a (({ a with word := acqWord l false false a.word } : AState).addShare t l)
  | enterSlow (a : AState) (t : Tid) (l : Mode) :
      a.ro t = .quiet → a.ts t = none →
      AStep cfg a { a with ro := setFn a.ro t (.slow (SL.entry l) .pre) }
  | acqSlow (a : AState) (t : Tid) (c : SL) :
      a.ro t = .slow c .pre → a.ts t = none → blocked c.l c.ign a.word = false →
      AStep cfg a ((({ a with word := acqWord c.l c.clear c.lwl a.word,
                               ro := setFn a.ro t .quiet } : AState).dropW c.w).addShare t c.l)
  | enq (a : AState) (t : Tid) (c : SL) :
      a.ro t = .slow c .pre → a.word.spin = false → blocked c.l c.ign a.word = true →
      AStep cfg a { a with word := enqWord c.l c.clear c.lwl a.word, sp := some t,
                           ro := setFn a.ro t (.slow c .st) }
  | adopt (a : AState) (t : Tid) (c : SL) (k : Wid) :
      a.ro t = .slow c .st → c.w = none → k ∉ a.queue → (a.wr k).owner = none → (a.wr k).waiting = false →
      AStep cfg a { a with queue := if c.wc = 0 then a.queue ++ [k] else k :: a.queue,
                           wr := setFn a.wr k { a.wr k with owner := some t, waiting := true, lType := c.l },
                           ro := setFn a.ro t (.slow { c with w := some k } .rel) }
  | requeue (a : AState) (t : Tid) (c : SL) (k : Wid) :
      a.ro t = .slow c .st → c.w = some k → k ∉ a.queue →
      AStep cfg a { a with queue := if c.wc = 0 then a.queue ++ [k] else k :: a.queue,
                           wr := setFn a.wr k { a.wr k with waiting := true },
                           ro := setFn a.ro t (.slow c .rel) }
  | relSpin (a : AState) (t : Tid) (c : SL) :
      a.ro t = .slow c .rel →
      AStep cfg a { a with word := { a.word with spin := false }, sp := none,
                           ro := setFn a.ro t (.slow c .loopLd) }
  | loopWait (a : AState) (t : Tid) (c : SL) (k : Wid) :
      a.ro t = .slow c .loopLd → c.w = some k → (a.wr k).waiting = true →
      AStep cfg a { a with ro := setFn a.ro t (.slow c .loopP) }
  | loopWoken (a : AState) (t : Tid) (c : SL) (k : Wid) :
      a.ro t = .slow c .loopLd → c.w = some k → (a.wr k).waiting = false →
      AStep cfg a { a with ro := setFn a.ro t (.slow c.woken .pre) }
  | pRet (a : AState) (t : Tid) (c : SL) (k : Wid) :
      a.ro t = .slow c .loopP → c.w = some k → (a.wr k).sem ≠ 0 →
      AStep cfg a { a with wr := setFn a.wr k { a.wr k with sem := if cfg.binary then 0 else (a.wr k).sem - 1 },
                           ro := setFn a.ro t (.slow c .loopLd) }
  | release (a : AState) (t : Tid) (l : Mode) :
      a.ro t = .quiet → a.ts t = some l → hasShare l a.word = true → relCond a.word →
      AStep cfg a (({ a with word := relUncWord l a.word } : AState).subShare t l)
  | grab (a : AState) (t : Tid) (l : Mode) :
      a.ro t = .quiet → a.ts t = some l → hasShare l a.word = true → uncontended a.word = false →
      a.word.spin = false →
      AStep cfg a ((({ a with word := grabWord l a.word, sp := some t } : AState).subShare t l).advance t (scan0 a.queue))
  | rcDone (a : AState) (t : Tid) (sc : Scan) :
      a.ro t = .scan sc → AStep cfg a (a.advance t sc)
  | finish (a : AState) (t : Tid) (f : Fin) :
      a.ro t = .fin f →
      AStep cfg a { a with word := finWord f a.word, sp := none, ro := setFn a.ro t (roleAfter f.wake) }
  | wakeStore (a : AState) (t : Tid) (k : Wid) (r : List Wid) :
      a.ro t = .wakeSt k r →
      AStep cfg a { a with wr := setFn a.wr k { a.wr k with waiting := false },
                           ro := setFn a.ro t (.wakeV k r) }
  | post (a : AState) (t : Tid) (k : Wid) (r : List Wid) :
      a.ro t = .wakeV k r →
      AStep cfg a (({ a with ro := setFn a.ro t (roleAfter r) } : AState).semPost cfg k)
  | envV (a : AState) (k : Wid) : AStep cfg a (a.semPost cfg k)
  | envSem (a : AState) (k : Wid) (n : Nat) :
      (a.wr k).owner = none →
      AStep cfg a { a with wr := setFn a.wr k { a.wr k with sem := n } }

/-! ### State-independent facts carried by program points -/

/-- Relations between the locals of lock_slow that hold at every program point. -/
def SL.ok (c : SL) : Prop :=
  c.ign = c.clear ∧ (c.clear = true ↔ 1 ≤ c.wc) ∧ (c.lwl = true ↔ longWaitThreshold ≤ c.wc)

theorem SL.ok_woken {c : SL} (h : c.ok) : c.woken.ok := by
  obtain ⟨h1, h2, h3⟩ := h
  refine ⟨rfl, ?_, ?_⟩
  · simp [SL.woken]
  · simp only [SL.woken, longWaitThreshold] at h3 ⊢
    by_cases h : c.wc + 1 = 30
    · simp [h]
    · simp only [h, if_false]; rw [h3]; omega

def PC.ok : PC → Prop
  | .lkCas1 l old | .tryCas1 l old => blocked l false old = false
  | .lsLd c | .lsSt c => c.ok ∧ (c.w.isSome = c.clear)
  | .lsCasAcq c old => c.ok ∧ (c.w.isSome = c.clear) ∧ blocked c.l c.ign old = false
  | .lsCasEnq c old => c.ok ∧ (c.w.isSome = c.clear) ∧ blocked c.l c.ign old = true ∧ old.spin = false
  | .lsRelLd c | .lsRelCas c _ | .lsWaitLd c | .lsPEnter c | .lsPRet c => c.ok ∧ c.w.isSome = true
  | .ulCas1 .W old => hasShare .W old = true ∧ ¬(old.waiting = true ∧ old.desig = false)
  | .ulCas1 .R old => hasShare .R old = true ∧
      ¬(old.waiting = true ∧ old.desig = false ∧ old.readers = 1 ∧ old.af = false)
  | .usCasUnc l old => hasShare l old = true ∧ uncontended old = true
  | .usCasGrab l old => hasShare l old = true ∧ uncontended old = false ∧ old.spin = false
  | _ => True

/-- Concrete-level side invariant: the client-visible ghost is only set between calls. -/
def HeldIdle (s : State) : Prop := ∀ t, s.held t ≠ none → s.pc t = .idle

def PcOk (s : State) : Prop := ∀ t, (s.pc t).ok

end NsyncVerif.MuQ
