/-
  Layer `Note`, fair termination of `nsync_note_wait`, the two remaining clauses of `WaitEnds`:
  the note is "notified" only because its expiry time is zero (`notified_returns`), and the clock
  passes the finite expiry time of the note (`expiry_returns`).  Both rest on `Reachable.wOk`: what
  a wait knows about the expiry time of its note, which is constant while the wait is in progress
  (`expiry_const`).
-/
import NsyncVerif.Proofs.NoteFairExpKeep

set_option linter.unusedSimpArgs false

namespace Note

variable {s0 : State}

theorem arg_of_waitOn {pc : PC} {n : NoteId} {wdl : Dl} (h : pc.waitOn = some (n, wdl)) :
    pc.arg = some n := by
  cases pc with
  | wt0 p m d => simp only [PC.waitOn, Option.some.injEq, Prod.mk.injEq] at h; simp [PC.arg, h.1]
  | wt p m d r => simp only [PC.waitOn, Option.some.injEq, Prod.mk.injEq] at h; simp [PC.arg, h.1]
  | dl p m nt k =>
    cases k <;> simp [PC.waitOn, DK.waitDl] at h <;> simp [PC.arg, DK.arg, h.1]
  | nfy p m par k =>
    cases k with
    | ofApi => simp [PC.waitOn, NK.waitDl] at h
    | ofDeadline k =>
      cases k <;> simp [PC.waitOn, NK.waitDl, DK.waitDl] at h <;> simp [PC.arg, NK.arg, DK.arg, h.1]
  | chd p stk top =>
    obtain ⟨m, par, k⟩ := top
    cases k with
    | ofApi => simp [PC.waitOn, NK.waitDl] at h
    | ofDeadline k =>
      cases k <;> simp [PC.waitOn, NK.waitDl, DK.waitDl] at h <;> simp [PC.arg, NK.arg, DK.arg, h.1]
  | _ => simp [PC.waitOn] at h

/-- The expiry time of a note does not change while a wait on it is in progress. -/
theorem expiry_const {s s' : State} {e : Event} (hr : Reachable s) (hs : step s e = .ok s')
    {t : Tid} {n : NoteId} {wdl : Dl} (hw : (s.pc t).waitOn = some (n, wdl)) :
    (s'.notes n).expiry = (s.notes n).expiry ∧ (s.notes n).allocated = true := by
  have huser : t ∈ s.users n := (hr.invU.users t n).mpr (arg_of_waitOn hw)
  have hpub := hr.invR.pub t n huser
  have hal := hr.invA.published n hpub
  refine ⟨?_, hal⟩
  rcases step_expiry hs n hal with h | ⟨a, p, dl, _, hcr, _, _⟩
  · exact h
  · have := (hr.invA.creating a n hcr).2
    rw [hpub] at this; cases this

/-- A note that is not allocated has no expiry time. -/
theorem step_expiry_unalloc {s s' : State} {e : Event} (hr : Reachable s) (hs : step s e = .ok s')
    (k : NoteId) (h' : (s'.notes k).allocated = false) :
    (s'.notes k).expiry = (s.notes k).expiry := by
  have hN := hr.inv6.2.1
  have hdl : ∀ a pos n nt dk, s.pc a = .dl pos n nt dk → (s.notes n).allocated = true := by
    intro a pos n nt dk h
    have := hN.claim a; rw [h] at this; exact this.1
  have hnf : ∀ a pos n par nk, s.pc a = .nfy pos n par nk → (s.notes n).allocated = true := by
    intro a pos n par nk h
    have := hN.claim a; rw [h] at this; exact this.1
  cases e
  all_goals step_cases hs
  all_goals (try rfl)
  all_goals (try (simp; done))
  · simp only [afterDeadline_f_allocated] at h'
    simp only [afterDeadline_f_expiry]
    exact newExpiryVal_ne s _ (fun hk => by
      subst hk; rw [hdl _ _ _ _ _ (by assumption)] at h'; cases h')
  · simp only [afterDeadline_f_allocated] at h'
    simp only [afterDeadline_f_expiry]
    exact newExpiryVal_ne s _ (fun hk => by
      subst hk; rw [hdl _ _ _ _ _ (by assumption)] at h'; cases h')
  · simp only [afterNotify_f_allocated] at h'
    simp only [afterNotify_f_expiry]
    exact NK.expiryVal_ne s _ (fun hk => by
      subst hk; rw [hnf _ _ _ _ _ (by assumption)] at h'; cases h')
  · simp only [afterDeadline_f_allocated] at h'
    simp only [afterDeadline_f_expiry]
    exact newExpiryVal_ne s _ (fun hk => by
      subst hk; rw [hdl _ _ _ _ _ (by assumption)] at h'; cases h')
  · simp only [setPc_notes, allocNote_f] at h' ⊢
    split
    · next hk => rw [if_pos hk] at h'; simp at h'
    · rfl

theorem Reachable.unalloc_expiry {s : State} (h : Reachable s) :
    ∀ k, (s.notes k).allocated = false → (s.notes k).expiry = none := by
  refine Reachable.induction
    (P := fun s => ∀ k, (s.notes k).allocated = false → (s.notes k).expiry = none)
    (fun k _ => rfl) ?_ s h
  intro s e s' hr ih hs k hk
  rw [step_expiry_unalloc hr hs k hk]
  apply ih
  cases ha : (s.notes k).allocated with
  | false => rfl
  | true => have := (step_stable hs).alloc k ha; rw [hk] at this; cases this

theorem wOk_call {s s' : State} {t : Tid} {a : ApiCall} (E : Dl) (hs : step s (.call t a) = .ok s') :
    wOk E (s'.pc t) := by
  step_cases hs
  all_goals (simp [wOk, upd_same, DK.recK, DK.isWaitK])

/-- What a wait knows about the expiry time of its note. -/
theorem Reachable.wOk {s : State} (h : Reachable s) :
    ∀ t n wdl, (s.pc t).waitOn = some (n, wdl) → wOk (s.notes n).expiry (s.pc t) := by
  refine Reachable.induction
    (P := fun s => ∀ t n wdl, (s.pc t).waitOn = some (n, wdl) → Note.wOk (s.notes n).expiry (s.pc t))
    (fun t n wdl h => by cases h) ?_ s h
  intro s e s' hr ih hs t n wdl hw'
  by_cases ha : e.actor = some t
  · by_cases hp : s.pc t = .idle
    · by_cases hc : ∃ a, e = .call t a
      · obtain ⟨a, rfl⟩ := hc
        exact wOk_call _ hs
      · rw [step_idle hs hp (fun a h => hc ⟨a, h⟩)] at hw'; cases hw'
    · rcases own_keep hs ha hp with hid | ⟨hwo, _⟩
      · rw [hid] at hw'; cases hw'
      · rw [hwo] at hw'
        have hE := (expiry_const hr hs hw').1
        rw [hE]
        refine own_keepW _ hs ha hp (ih t n wdl hw') ?_
        intro n' wdl' h'
        rw [hw'] at h'; cases h'; rfl
  · have hpc := step_pc_other hs t ha
    rw [hpc] at hw' ⊢
    rw [(expiry_const hr hs hw').1]
    exact ih t n wdl hw'

/-- Along an execution, while the wait is in progress. -/
theorem expiry_stays (x : Exec s0) (hr : Reachable s0) {t : Tid} {i : Nat} {n : NoteId} {wdl : Dl}
    (hwo : ((x.ρ i).pc t).waitOn = some (n, wdl)) : ∀ d,
    (∀ j, i ≤ j → j ≤ i + d → (x.ρ j).pc t ≠ .idle) →
    ((x.ρ (i + d)).notes n).expiry = ((x.ρ i).notes n).expiry := by
  intro d
  induction d with
  | zero => intro _; rfl
  | succ d ih =>
    intro hne
    have a := ih (fun j h1 h2 => hne j h1 (by omega))
    rw [← a]
    have hw : ((x.ρ (i + d)).pc t).waitOn = some (n, wdl) := by
      rw [waitOn_const x d (fun j h1 h2 => hne j h1 (by omega))]; exact hwo
    cases hs : x.σ (i + d) with
    | none => rw [show i + (d + 1) = i + d + 1 by omega, x.next_none hs]
    | some e => exact (expiry_const (x.reach hr (i + d)) (x.next_some hs) hw).1

theorem min_leNow' {m wdl : Dl} {e now : Nat} (hm : m = Dl.min wdl (some e)) (h : e ≤ now) :
    m.leNow now = true := by
  subst hm
  cases wdl with
  | none => simp [Dl.min, Dl.lt, Dl.leNow, h]
  | some y =>
    simp only [Dl.min, Dl.lt]
    by_cases hy : e < y
    · simp [hy, Dl.leNow, h]
    · simp [hy, Dl.leNow]; omega

/-- FAIR TERMINATION of a wait on a note with a finite expiry time that the clock passes. -/
theorem expiry_returns (x : Exec s0) (hr : Reachable s0) (hw : WeakFair x) (hl : LockFair x)
    (hwt : WaitFair x) (hf : FiniteArrivals x) (hclk : ClockAdvances x) (hss : SemSound x)
    {t : Tid} {i : Nat} {n : NoteId} {wdl : Dl} {ex : Nat}
    (hwo : ((x.ρ i).pc t).waitOn = some (n, wdl))
    (hex : ((x.ρ i).notes n).expiry = some ex) : ∃ j, i ≤ j ∧ (x.ρ j).pc t = .idle := by
  refine timed_returns x hr hw hl hwt hf hclk hss hwo ?_
  intro T hT hne d n' wdl' r hpc
  obtain ⟨k, rfl⟩ : ∃ k, T = i + k := ⟨T - i, by omega⟩
  have hwc : ((x.ρ (i + k)).pc t).waitOn = some (n, wdl) := by
    rw [waitOn_const x k (fun j' h1 h2 => hne j' h1 h2)]; exact hwo
  have hE : ((x.ρ (i + k)).notes n).expiry = some ex := by
    rw [expiry_stays x hr hwo k hne]; exact hex
  have hok := (x.reach hr (i + k)).wOk t n wdl hwc
  rw [hE, hpc] at hok
  obtain ⟨_, nt, hd, hnt⟩ := hok
  rw [hpc] at hwc
  simp only [PC.waitOn, Option.some.injEq, Prod.mk.injEq] at hwc
  rcases hnt with rfl | rfl
  · exact ⟨0, fun now h => min_leNow' hd h⟩
  · exact ⟨ex, fun now h => min_leNow' hd h⟩

/-- FAIR TERMINATION of a wait on a note that is notified — flag set or expiry time zero — at some
    time. -/
theorem notified_returns (x : Exec s0) (hr : Reachable s0) (hw : WeakFair x) (hl : LockFair x)
    (hwt : WaitFair x) (hf : FiniteArrivals x) {t : Tid} {i : Nat} {n : NoteId} {wdl : Dl}
    (hwo : ((x.ρ i).pc t).waitOn = some (n, wdl)) {j0 : Nat} (hn : (x.ρ j0).Notified n) :
    ∃ j, i ≤ j ∧ (x.ρ j).pc t = .idle := by
  have hp : (x.ρ i).pc t ≠ .idle := by intro h; rw [h] at hwo; cases hwo
  by_cases hflag : ∃ j, ((x.ρ j).notes n).notified = true
  · refine fair_returns_all x hr hw hl hwt hf hp (fun n' wdl' h => ?_)
    rw [hwo] at h; cases h; exact hflag
  have hnf : ∀ j, ((x.ρ j).notes n).notified = false := by
    intro j
    cases h : ((x.ρ j).notes n).notified with
    | false => rfl
    | true => exact absurd ⟨j, h⟩ hflag
  apply Classical.byContradiction
  intro hnever
  have hne : ∀ j, i ≤ j → (x.ρ j).pc t ≠ .idle := fun j hj h => hnever ⟨j, hj, h⟩
  have hwc : ∀ j, i ≤ j → ((x.ρ j).pc t).waitOn = some (n, wdl) := by
    intro j hj
    obtain ⟨d, rfl⟩ : ∃ d, j = i + d := ⟨j - i, by omega⟩
    rw [waitOn_const x d (fun j' h1 _ => hne j' h1)]; exact hwo
  -- the expiry time of the note is zero, at all times from `i` on
  have hE0 : ((x.ρ j0).notes n).expiry = some 0 := by
    rcases hn with h | h
    · rw [hnf j0] at h; cases h
    · exact h
  have hconst : ∀ j, i ≤ j → ((x.ρ j).notes n).expiry = ((x.ρ i).notes n).expiry := by
    intro j hj
    obtain ⟨d, rfl⟩ : ∃ d, j = i + d := ⟨j - i, by omega⟩
    exact expiry_stays x hr hwo d (fun j' h1 _ => hne j' h1)
  have hal : ((x.ρ i).notes n).allocated = true := by
    cases hs : x.σ i with
    | none =>
      have huser : t ∈ (x.ρ i).users n := ((x.reach hr i).invU.users t n).mpr (arg_of_waitOn hwo)
      exact (x.reach hr i).invA.published n ((x.reach hr i).invR.pub t n huser)
    | some e => exact (expiry_const (x.reach hr i) (x.next_some hs) hwo).2
  have hEi : ((x.ρ i).notes n).expiry = some 0 := by
    rcases Nat.le_total i j0 with h | h
    · rw [← hconst j0 h]; exact hE0
    · -- the note was notified before: it still is (`C08_notified_monotone`), and the flag is unset
      have hal0 : ((x.ρ j0).notes n).allocated = true := by
        cases ha : ((x.ρ j0).notes n).allocated with
        | true => rfl
        | false =>
          have := (x.reach hr j0).unalloc_expiry n ha
          rw [hE0] at this; cases this
      have key : ∀ d, (x.ρ (j0 + d)).Notified n ∧ ((x.ρ (j0 + d)).notes n).allocated = true := by
        intro d
        induction d with
        | zero => exact ⟨hn, hal0⟩
        | succ d ih =>
          cases hs : x.σ (j0 + d) with
          | none => rw [show j0 + (d + 1) = j0 + d + 1 by omega, x.next_none hs]; exact ih
          | some e =>
            have hst := x.next_some hs
            exact ⟨C08_notified_monotone (x.reach hr _) hst n ih.2 ih.1,
              (step_stable hst).alloc n ih.2⟩
      obtain ⟨d, rfl⟩ : ∃ d, i = j0 + d := ⟨i - j0, by omega⟩
      rcases (key d).1 with h1 | h1
      · rw [hnf _] at h1; cases h1
      · exact h1
  have hEj : ∀ j, i ≤ j → ((x.ρ j).notes n).expiry = some 0 := fun j hj => by
    rw [hconst j hj]; exact hEi
  have hy : GenHyps x := ⟨hr, hw, hl, hwt, hf, finiteWork x hr hw hf⟩
  have hbad : ∀ j, i ≤ j → ((x.ρ j).pc t).noLoop = true ∨
      (wOk (some 0) ((x.ρ j).pc t)) := fun j hj => by
    right
    have := (x.reach hr j).wOk t n wdl (hwc j hj)
    rw [hEj j hj] at this; exact this
  have hnl : ¬ Looper x t := by
    intro hloop
    obtain ⟨j, hj, _, n1, nt1, r1, wdl1, hpc1, _⟩ := hloop i
    rcases hbad j hj with h | h
    · rw [hpc1] at h; cases h
    · rw [hpc1] at h; exact h.1 rfl rfl
  obtain ⟨i0, hi0⟩ : ∃ i0, ∀ j, i0 ≤ j → ¬ Acts x t j := by
    rcases hy.work t with h | h
    · exact h
    · exact absurd h hnl
  obtain ⟨T, hT, hC⟩ := classified x hy (max i i0)
  have hst : ∀ j, T ≤ j → ¬ Moves x t j :=
    fun j hj hm => hi0 j (by omega) ⟨hm, hne j (by omega)⟩
  have hpT := hne T (by omega)
  obtain ⟨m, hwm, _⟩ := stuck_target x hy hst hpT (fun d n' wdl' r h => by
    rcases hbad T (by omega) with h' | h'
    · rw [h] at h'; cases h'
    · rw [h] at h'; exact h'.1 rfl)
  exact no_stuck_target x hy hC m t hst hwm

end Note
