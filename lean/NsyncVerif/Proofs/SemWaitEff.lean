/-
  Proofs/SemWaitEff.lean — the accepting branches of `SemWait.stepThr` as a relation `Eff cfg s t s'`
  (one constructor per branch, with the guards the invariants need), and `stepThr … = .ok s' → Eff …`.
-/
import NsyncVerif.Proofs.SemWaitBasic

namespace SemWait

/-- `s.bind t j`: the state after binding thread t's call to semaphore j -/
def State.bind (s : State) (t : Tid) (j : SemId) : State :=
  (s.setFr t { s.fr t with sem := some j }).setSemUser j (some t)

/-- the state after the V of the notifier t that unlinked r -/
def State.posted (cfg : Config) (s : State) (t : Tid) (r : Rid) (j : SemId) : State :=
  ((s.setSem j (vCount cfg (s.sem j))).setRec r { s.rcd r with posted := true }).setPost t none

/-- the state after the notifier t has unlinked r, the head of its note's list -/
def State.popped (s : State) (t : Tid) (r : Rid) (tl : List Rid) : State :=
  ((s.setNote (s.rcd r).note { s.note (s.rcd r).note with queue := tl }).setRec r
    { s.rcd r with waiting := false, unl := .waker, popper := t, posted := false }).setPost t (some r)

/-- the state after sem_wait.c:46 -/
def State.inited (s : State) (t : Tid) (r : Rid) : State :=
  ((s.setRec r { live := true, waiting := true, owner := t, note := (s.fr t).note, unl := .none, popper := 0,
                 posted := false }).setFr t { s.fr t with nw := some r }).setPc t .lk1

/-- the state after the enqueue of sem_wait.c:53 -/
def State.enqd (s : State) (t : Tid) (r : Rid) : State :=
  ((s.setNote (s.fr t).note { s.note (s.fr t).note with queue := (s.note (s.fr t).note).queue ++ [r] }).setFr t
      { s.fr t with locald := dmin (s.fr t).dl (s.note (s.fr t).note).expiry,
                    nearer := dlt (s.fr t).dl (s.note (s.fr t).note).expiry }).setPc t (.ulk1 true)

/-- the state after the dequeue of sem_wait.c:71 -/
def State.removed (s : State) (t : Tid) (r : Rid) : State :=
  ((s.setNote (s.fr t).note { s.note (s.fr t).note with queue := (s.note (s.fr t).note).queue.erase r }).setRec r
      { s.rcd r with unl := .owner }).setPc t .ulk2

/-- the state after the return of nsync_sem_wait_with_cancel_ -/
def State.returned (s : State) (t : Tid) : State :=
  (((s.kill (s.fr t).nw).unbind (s.fr t).sem).setFr t Frame.empty).setPc t .idle

inductive Eff (cfg : Config) (s : State) (t : Tid) : State → Prop
  | nop : Eff cfg s t s
  | semV (j : SemId) : Eff cfg s t (s.setSem j (vCount cfg (s.sem j)))
  | semP (j : SemId) (c : Nat) : s.semUser j = none → s.sem j = c + 1 → Eff cfg s t (s.setSem j c)
  | lock (k : NoteId) : protoMode (s.pc t) = true → (s.note k).lock = none →
      Eff cfg s t (s.setNote k { s.note k with lock := some t })
  | unlock (k : NoteId) : protoMode (s.pc t) = true → (s.note k).lock = some t → s.post t = none →
      ((s.note k).flag = true → (s.note k).queue = []) → Eff cfg s t (s.setNote k { s.note k with lock := none })
  | setFlag (k : NoteId) : protoMode (s.pc t) = true → (s.note k).lock = some t → (s.note k).known = true →
      (s.note k).flag = false → dlePast (s.note k).expiry = false → Eff cfg s t (s.setNote k { s.note k with flag := true })
  | pop (r : Rid) (tl : List Rid) : protoMode (s.pc t) = true → (s.note (s.rcd r).note).queue = r :: tl →
      (s.note (s.rcd r).note).lock = some t → (s.note (s.rcd r).note).flag = true → s.post t = none →
      Eff cfg s t (s.popped t r tl)
  | postDead (r : Rid) (j : SemId) : protoMode (s.pc t) = true → s.post t = some r → (s.rcd r).live = false →
      Eff cfg s t (s.posted cfg t r j)
  | postBound (r : Rid) (j : SemId) : protoMode (s.pc t) = true → s.post t = some r → (s.rcd r).live = true →
      (s.fr (s.rcd r).owner).sem = some j → Eff cfg s t (s.posted cfg t r j)
  | postBind (r : Rid) (j : SemId) : protoMode (s.pc t) = true → s.post t = some r → (s.rcd r).live = true →
      (s.fr (s.rcd r).owner).sem = none → s.semUser j = none → Eff cfg s t ((s.bind (s.rcd r).owner j).posted cfg t r j)
  | newNote (k : NoteId) (ex : Deadline) : protoMode (s.pc t) = true → (s.note k).known = false →
      Eff cfg s t (s.setNote k { known := true, lock := none, flag := false, expiry := ex, queue := [], fresh := true })
  | inherit (k p : NoteId) : protoMode (s.pc t) = true → (s.note k).known = true → (s.note k).fresh = true → k ≠ p →
      Eff cfg s t (s.setNote k { s.note k with expiry := dmin (s.note p).expiry (s.note k).expiry })
  | born (k p : NoteId) : protoMode (s.pc t) = true → (s.note k).known = true → (s.note k).fresh = true → k ≠ p →
      (s.note p).lock = some t → (s.note k).flag = false → timePos (s.note p) = false →
      Eff cfg s t (s.setNote k { s.note k with flag := true })
  | call (n : NoteId) (dl : Deadline) : s.pc t = .idle → (s.note n).known = true → s.post t = none →
      (s.note n).lock ≠ some t →
      Eff cfg s t (((s.setNote n { s.note n with fresh := false }).setFr t { Frame.empty with note := n, dl := dl }).setPc t
            (.nd .first .ld0))
  | openEnd (u : Use) : s.pc t = .nf u .open → (s.note (s.fr t).note).flag = true →
      (s.note (s.fr t).note).lock = some t → s.post t = none → (s.note (s.fr t).note).queue = [] →
      Eff cfg s t ((s.setNote (s.fr t).note { s.note (s.fr t).note with lock := none }).setPc t (nfNext u))
  | nd_ld0_set (u : Use) : s.pc t = .nd u .ld0 → (s.note (s.fr t).note).flag = true → Eff cfg s t (s.setPc t (ndNext u false))
  | nd_ld0_clr (u : Use) : s.pc t = .nd u .ld0 → (s.note (s.fr t).note).flag = false → Eff cfg s t (s.setPc t (.nd u .lk))
  | nd_lk (u : Use) : s.pc t = .nd u .lk → (s.note (s.fr t).note).lock = none →
      Eff cfg s t ((s.setNote (s.fr t).note { s.note (s.fr t).note with lock := some t }).setPc t (.nd u .ld1))
  | nd_ld1 (u : Use) : s.pc t = .nd u .ld1 → Eff cfg s t (s.setPc t (.nd u (.ulk (s.note (s.fr t).note).flag)))
  | nd_ulk_done (u : Use) (obs : Bool) : s.pc t = .nd u (.ulk obs) → (s.note (s.fr t).note).lock = some t →
      (obs || dlePast (s.note (s.fr t).note).expiry) = true →
      Eff cfg s t ((s.setNote (s.fr t).note { s.note (s.fr t).note with lock := none }).setPc t (ndNext u false))
  | nd_ulk_now (u : Use) (obs : Bool) : s.pc t = .nd u (.ulk obs) → (s.note (s.fr t).note).lock = some t →
      (obs || dlePast (s.note (s.fr t).note).expiry) = false →
      Eff cfg s t ((s.setNote (s.fr t).note { s.note (s.fr t).note with lock := none }).setPc t (.nd u .now))
  | nd_now_exp (u : Use) : s.pc t = .nd u .now → expiredB (s.note (s.fr t).note).expiry s.now = true →
      Eff cfg s t (s.setPc t (.nf u .lk))
  | nd_now_ok (u : Use) : s.pc t = .nd u .now → expiredB (s.note (s.fr t).note).expiry s.now = false →
      Eff cfg s t (s.setPc t (ndNext u true))
  | nf_lk (u : Use) : s.pc t = .nf u .lk → (s.note (s.fr t).note).lock = none →
      Eff cfg s t ((s.setNote (s.fr t).note { s.note (s.fr t).note with lock := some t }).setPc t (.nf u .ld))
  | nf_ld_ulk (u : Use) : s.pc t = .nf u .ld →
      ((s.note (s.fr t).note).flag || dlePast (s.note (s.fr t).note).expiry) = true → Eff cfg s t (s.setPc t (.nf u .ulk))
  | nf_ld_open (u : Use) : s.pc t = .nf u .ld →
      ((s.note (s.fr t).note).flag || dlePast (s.note (s.fr t).note).expiry) = false → Eff cfg s t (s.setPc t (.nf u .open))
  | nf_ulk (u : Use) : s.pc t = .nf u .ulk → (s.note (s.fr t).note).lock = some t →
      Eff cfg s t ((s.setNote (s.fr t).note { s.note (s.fr t).note with lock := none }).setPc t (nfNext u))
  | m_init (r : Rid) : s.pc t = .init → (s.rcd r).live = false →
      Eff cfg s t (s.inited t r)
  | m_lk1 : s.pc t = .lk1 → (s.note (s.fr t).note).lock = none →
      Eff cfg s t ((s.setNote (s.fr t).note { s.note (s.fr t).note with lock := some t }).setPc t .ld49)
  | m_ld49_enq (r : Rid) : s.pc t = .ld49 → (cfg.noReread || timePos (s.note (s.fr t).note)) = true →
      (s.fr t).nw = some r →
      Eff cfg s t (s.enqd t r)
  | m_ld49_no : s.pc t = .ld49 → (cfg.noReread || timePos (s.note (s.fr t).note)) = false →
      Eff cfg s t (s.setPc t (.ulk1 false))
  | m_ulk1 (b : Bool) : s.pc t = .ulk1 b → (s.note (s.fr t).note).lock = some t →
      Eff cfg s t ((s.setNote (s.fr t).note { s.note (s.fr t).note with lock := none }).setPc t (if b then .pdEnter else .ret))
  | m_pdEnterBound (j : SemId) : s.pc t = .pdEnter → (s.fr t).sem = some j → Eff cfg s t (s.setPc t (.pdWait j))
  | m_pdEnterBind (j : SemId) : s.pc t = .pdEnter → (s.fr t).sem = none → s.semUser j = none →
      Eff cfg s t ((s.bind t j).setPc t (.pdWait j))
  | m_tmoNear (j : SemId) : s.pc t = .pdWait j → expiredB (s.fr t).locald s.now = true → (s.fr t).nearer = true →
      Eff cfg s t ((s.setFr t { s.fr t with out := .timedOut }).setPc t .lk2)
  | m_tmoFar (j : SemId) : s.pc t = .pdWait j → expiredB (s.fr t).locald s.now = true → (s.fr t).nearer = false →
      Eff cfg s t ((s.setFr t { s.fr t with out := .cancelled }).setPc t (.nd .l65 .ld0))
  | m_p0 (j : SemId) (c : Nat) : s.pc t = .pdWait j → s.sem j = c + 1 →
      Eff cfg s t (((s.setSem j c).setFr t { s.fr t with out := .ok, consumed := true }).setPc t .lk2)
  | m_lk2 : s.pc t = .lk2 → (s.note (s.fr t).note).lock = none →
      Eff cfg s t ((s.setNote (s.fr t).note { s.note (s.fr t).note with lock := some t }).setPc t .ld68)
  | m_ld68_rm (r : Rid) : s.pc t = .ld68 → timePos (s.note (s.fr t).note) = true → (s.fr t).nw = some r →
      r ∈ (s.note (s.fr t).note).queue →
      Eff cfg s t (s.removed t r)
  | m_ld68_no : s.pc t = .ld68 → timePos (s.note (s.fr t).note) = false → Eff cfg s t (s.setPc t .ulk2)
  | m_ulk2 : s.pc t = .ulk2 → (s.note (s.fr t).note).lock = some t →
      Eff cfg s t ((s.setNote (s.fr t).note { s.note (s.fr t).note with lock := none }).setPc t .ret)
  | m_ret : s.pc t = .ret →
      Eff cfg s t (s.returned t)

theorem dflt_eff {cfg : Config} {s s' : State} {t : Tid} {e : Ev} (hs : dflt cfg s e = .ok s') : Eff cfg s t s' := by
  unfold dflt at hs
  split_ok hs <;> cases hs
  all_goals first
    | exact .nop
    | exact .semV _
    | (apply Eff.semP <;> assumption)

theorem bindSem_cases {s s1 : State} {t : Tid} {j : SemId} (h : bindSem s t j = some s1) :
    ((s.fr t).sem = some j ∧ s1 = s) ∨ ((s.fr t).sem = none ∧ s.semUser j = none ∧ s1 = s.bind t j) := by
  unfold bindSem at h
  split at h
  · rename_i j' hj
    split at h
    · cases h; subst_vars; exact .inl ⟨hj, rfl⟩
    · cases h
  · rename_i hj
    split at h
    · cases h
    · rename_i hu; cases h; exact .inr ⟨hj, hu, rfl⟩

theorem proto_eff {cfg : Config} {s s' : State} {t : Tid} {e : Ev} (hp : protoMode (s.pc t) = true)
    (hs : proto cfg s t e = .ok s') : Eff cfg s t s' := by
  unfold proto at hs
  split at hs
  · -- lock
    split_ok hs; cases hs; exact .lock _ hp (by assumption)
  · -- unlock / muWait
    split_ok hs; cases hs; rename_i h; exact .unlock _ hp h.1 h.2.1 h.2.2
  · split_ok hs; cases hs; rename_i h; exact .unlock _ hp h.1 h.2.1 h.2.2
  · -- ld notified
    split_ok hs; cases hs; exact .nop
  · -- st notified
    split_ok hs; cases hs; rename_i h; exact .setFlag _ hp h.1 h.2.1 h.2.2.2.2.1 h.2.2.2.2.2
  · -- pop
    split_ok hs
    rename_i r new obs h tl hq hc
    cases hs
    obtain ⟨rfl, h2, h3, h4, -, -⟩ := hc
    exact .pop _ tl hp hq h2 h3 h4
  · -- semV
    split at hs
    · exact dflt_eff hs
    · rename_i r hpost
      split at hs
      · rename_i s1 hps
        cases hs
        unfold postSem at hps
        split at hps
        · rename_i hl
          rcases bindSem_cases hps with ⟨h1, rfl⟩ | ⟨h1, h2, rfl⟩
          · exact .postBound _ _ hp hpost hl h1
          · exact .postBind _ _ hp hpost hl h1 h2
        · rename_i hl
          cases hps
          exact .postDead _ _ hp hpost (by simpa using hl)
      · cases hs
  · -- newNote
    split_ok hs; cases hs; exact .newNote _ _ hp (by assumption)
  · -- inherit
    split_ok hs; cases hs; rename_i h; exact .inherit _ _ hp h.1 h.2.1 h.2.2.1
  · -- bornNotified
    split_ok hs; cases hs; rename_i h; exact .born _ _ hp h.1 h.2.1 h.2.2.1 h.2.2.2.1 h.2.2.2.2.2.2.2 h.2.2.2.2.1
  · exact dflt_eff hs

theorem stepND_eff {cfg : Config} {s s' : State} {t : Tid} {u : Use} {st : NDst} {e : Ev} (hpc : s.pc t = .nd u st)
    (hs : stepND cfg s t u st e = .ok s') : Eff cfg s t s' := by
  unfold stepND at hs
  split at hs
  · dsimp only at hs
    split at hs
    · split at hs
      · rename_i hf; cases hs; exact .nd_ld0_set _ hpc hf
      · rename_i hf; cases hs; exact .nd_ld0_clr _ hpc (by simpa using hf)
    · cases hs
  · split_ok hs; cases hs; rename_i h; exact .nd_lk _ hpc h.2
  · split_ok hs; cases hs; exact .nd_ld1 _ hpc
  · dsimp only at hs
    split at hs
    · rename_i h
      split at hs
      · rename_i hf; cases hs; exact .nd_ulk_done _ _ hpc h.2 hf
      · rename_i hf; cases hs; exact .nd_ulk_now _ _ hpc h.2 (by simpa using hf)
    · cases hs
  · dsimp only at hs
    split at hs
    · rename_i h
      subst h
      split at hs
      · rename_i hf; cases hs; exact .nd_now_exp _ hpc hf
      · rename_i hf; cases hs; exact .nd_now_ok _ hpc (by simpa using hf)
    · cases hs
  · exact dflt_eff hs

theorem stepNF_eff {cfg : Config} {s s' : State} {t : Tid} {u : Use} {st : NfSt} {e : Ev} (hpc : s.pc t = .nf u st)
    (hs : stepNF cfg s t u st e = .ok s') : Eff cfg s t s' := by
  unfold stepNF at hs
  split at hs
  · split_ok hs; cases hs; rename_i h; exact .nf_lk _ hpc h.2
  · dsimp only at hs
    split at hs
    · cases hs
      by_cases hf : ((s.note (s.fr t).note).flag || dlePast (s.note (s.fr t).note).expiry) = true
      · rw [if_pos hf]; exact .nf_ld_ulk _ hpc hf
      · rw [if_neg hf]; exact .nf_ld_open _ hpc (by simpa using hf)
    · cases hs
  · split_ok hs; cases hs; rename_i h; exact .nf_ulk _ hpc h.2
  · -- open, unlock
    have hp : protoMode (s.pc t) = true := by rw [hpc]; rfl
    dsimp only at hs
    split at hs
    · rename_i h
      split at hs
      · rename_i s1 hs1
        cases hs
        obtain ⟨rfl, hfl⟩ := h
        simp only [proto] at hs1
        split_ok hs1
        cases hs1
        rename_i h2
        exact .openEnd _ hpc hfl h2.1 h2.2.1 (h2.2.2 hfl)
      · cases hs
    · exact proto_eff hp hs
  · have hp : protoMode (s.pc t) = true := by rw [hpc]; rfl
    exact proto_eff hp hs
  · exact dflt_eff hs

end SemWait
