import NsyncVerif.Proofs.MuCInv12
/-
  MuC, facts about one step (`StepTL`): the steps that continue with the plain code of the scan of
  unlock_slow (grab CAS, mu.c:354 release, mu.c:399 re-acquire, remove_count CAS, condition evaluation).
-/
namespace NsyncVerif.MuC

/-- The program points from which a step runs the plain code of the scan. -/
def PC.usRet : PC → Option Ret
  | .usCasGrab r _ | .usRelCas r _ _ | .usReCas r _ _ | .usRcCas r _ _ _ | .usEval r _ => some r
  | _ => none

structure ScanStep (s s' : State) (t : Tid) : Prop where
  src : ∃ r late, (s.pc t).usRet = some r ∧ ScanPc r late (s'.pc t)
  wr : ∀ x, (s'.wr x).waiting = (s.wr x).waiting ∧ (s'.wr x).lType = (s.wr x).lType ∧ (s'.wr x).cond = (s.wr x).cond
  ww : s'.word.ww = s.word.ww
  lw : s'.word.lw = s.word.lw
  data : s'.data = s.data
  nv : s'.nwViol = s.nwViol
  wake : ∀ x, x ∈ (s.pc t).wakeL → x ∈ (s'.pc t).wakeL
  wo : ∀ v, s'.wOwner = some v → v ≠ t → s.wOwner = some v

theorem scanPc_lsRec {r : Ret} {late : Bool} {p : PC} (h : ScanPc r late p) : p.lsRec = none := by
  cases p <;> simp [ScanPc] at h <;> rfl

theorem scanPc_wwA {r : Ret} {late : Bool} {p : PC} (h : ScanPc r late p) : p.wwA = false := by
  cases p <;> simp [ScanPc] at h <;> rfl

theorem scanPc_sl {r : Ret} {late : Bool} {p : PC} (h : ScanPc r late p) : p.sl? = none := by
  cases p <;> simp [ScanPc] at h <;> rfl

theorem scanPc_ok12 {r : Ret} {late : Bool} {p : PC} (_h : ScanPc r late p) : p.ok12 := by
  trivial

theorem scanPc_mtOld' {r : Ret} {late : Bool} {p : PC} (h : ScanPc r late p) : p.mtOld = none := by
  cases p <;> simp [ScanPc] at h <;> rfl

theorem scanPc_enqPend' {r : Ret} {late : Bool} {p : PC} (h : ScanPc r late p) : p.enqPend = false := by
  cases p <;> simp [ScanPc] at h <;> rfl

theorem scanPc_limbo' {r : Ret} {late : Bool} {p : PC} (h : ScanPc r late p) : p.limbo = none := by
  cases p <;> simp [ScanPc] at h <;> rfl

theorem usRet_facts {p : PC} {r : Ret} (h : p.usRet = some r) :
    p.waitRec = r.w? ∧ p.wwA = false ∧ p.sl? = none ∧ p.woken = false ∧ p.timedOut = false ∧ p.enqPend = false ∧
    p.lsRec = none ∧ p.limbo = none := by
  cases p <;> simp [PC.usRet] at h <;> subst h <;> simp [PC.waitRec, PC.wwA, PC.sl?, PC.woken, PC.timedOut, PC.enqPend, PC.lsRec, PC.limbo]

/-- All the step facts for a scan step. -/
theorem ScanStep.tl {s s' : State} {t : Tid} (h : ScanStep s s' t) (hoth : ∀ u, u ≠ t → s'.pc u = s.pc u ∧ s'.held u = s.held u) :
    StepTL s s' t := by
  obtain ⟨r, late, hsrc, hdst⟩ := h.src
  obtain ⟨f1, f2, f3, f4, f5, f6, f7, f8⟩ := usRet_facts hsrc
  have hunl := scanPc_unl hdst
  refine ⟨hoth, h.data, by rw [h.nv]; exact id, ⟨?_, ?_, ?_, ?_⟩, ⟨?_, ?_, ?_, ?_, ?_⟩, ⟨?_, ?_, ?_, ?_, ?_, ?_, ?_⟩, ⟨?_, ?_, ?_, ?_, ?_⟩, ⟨?_, ?_⟩⟩
  · intro k a b; rw [(h.wr k).1, a] at b; cases b
  · intro k a b; rw [(h.wr k).1, a] at b; cases b
  · intro k; exact Or.inl ⟨(h.wr k).2.1, (h.wr k).2.2⟩
  · intro k a; rw [scanPc_lsRec hdst] at a; cases a
  · intro k a _; left; rw [scanPc_waitRec hdst, ← f1]; exact a
  · intro k a; left; rw [scanPc_waitRec hdst, ← f1] at a; exact a
  · intro k a; exact Or.inl (h.wake k a)
  · intro k a _ _; left; exact ⟨by rw [scanPc_waitRec hdst, ← f1]; exact a, scanPc_hlRec hdst⟩
  · intro a; rw [scanPc_enqPend' hdst] at a; cases a
  · intro a; left; rw [← h.ww]; exact a
  · intro a; rw [f2] at a; cases a
  · intro a; left; rw [← h.lw]; exact a
  · intro c a; rw [f3] at a; cases a
  · intro old a; rw [scanPc_mtOld' hdst] at a; cases a
  · intro _; exact scanPc_ok12 hdst
  · intro v a b _
    by_cases e : v = t
    · have := b e; rw [hunl] at this; cases this
    · exact ⟨h.wo v a e, fun e' => absurd e' e⟩
  · intro _; right; left; exact hunl
  · intro _; left; exact hunl
  · intro a; rw [f4] at a; cases a
  · intro k a _; left; exact ⟨by rw [scanPc_waitRec hdst, ← f1]; exact a, scanPc_hlRec hdst⟩
  · intro a; rw [f5] at a; cases a
  · intro old a; rw [scanPc_mtOld' hdst] at a; cases a
  · intro a; left; rw [h.lw]; exact a

/-! ### the five kinds of scan step -/

theorem scanStep_grab {s s' : State} {t : Tid} {r : Ret} {old : Word} (heq : s.pc t = .usCasGrab r old) (hw : s.word = old)
    (hs : afterPickup (pickup ({ subShare { s with word := grabWord r.mode old.cond old, sp := some t } t r.mode with
        wOwner := if old.cond then some t else (subShare { s with word := grabWord r.mode old.cond old, sp := some t } t r.mode).wOwner })
      { late := old.cond, tc := old.cond, done := [], passed := [], todo := [], wake := [], wt := none, sww := false, saf := true }) t r
      { late := old.cond, tc := old.cond, done := [], passed := [], todo := [], wake := [], wt := none, sww := false, saf := true } = .ok s') :
    ScanStep s s' t := by
  have hsc0 : Scan.ok { late := old.cond, tc := old.cond, done := [], passed := [], todo := [], wake := [], wt := none,
                        sww := false, saf := true } := fun h => h
  obtain ⟨hf, p, hpc, hsc⟩ := afterPickup_frame hs hsc0
  obtain ⟨hlo, _⟩ := afterPickup_lists hs
  have hpt : ScanPc r old.cond (s'.pc t) := by rw [hpc]; simpa using hsc
  refine ⟨⟨r, old.cond, by rw [heq]; rfl, hpt⟩, ?_, ?_, ?_, ?_, ?_, ?_, ?_⟩
  · intro x; have := hlo x; simp at this; exact ⟨this.2.1, this.2.2.1, this.2.2.2.2.1⟩
  · rw [hf.word]; simp [grabWord, hw]; cases r.mode <;> simp [subWord]
  · rw [hf.word]; simp [grabWord, hw]; cases r.mode <;> simp [subWord]
  · rw [hf.data]; cases r.mode <;> simp
  · rw [hf.nwViol]; cases r.mode <;> simp
  · intro x hx; rw [heq] at hx; simp [PC.wakeL] at hx
  · intro v a hv
    rw [hf.wOwner] at a
    cases hm : r.mode <;> simp only [hm] at a <;> split at a <;> simp_all

theorem scanStep_rel {s s' : State} {t : Tid} {r : Ret} {sc : Scan} {old : Word} (h1 : Inv1 s) (heq : s.pc t = .usRelCas r sc old)
    (hs : scanRun 3 { s with word := { old with spin := false }, sp := none } t r sc = .ok s') (hw : s.word = old) :
    ScanStep s s' t := by
  have hok1 := h1.pcok t; rw [heq] at hok1
  obtain ⟨hf, p, hpc, hsc⟩ := scanRun_frame _ _ t r sc s' hs hok1.2
  obtain ⟨hlo, _⟩ := scanRun_lists _ _ t r sc s' hs
  have hwk := scanRun_wake _ _ t r sc s' hs
  have hpt : ScanPc r sc.late (s'.pc t) := by rw [hpc]; simpa using hsc
  refine ⟨⟨r, sc.late, by rw [heq]; rfl, hpt⟩, ?_, ?_, ?_, ?_, ?_, ?_, ?_⟩
  · intro x; exact ⟨(hlo x).2.1, (hlo x).2.2.1, (hlo x).2.2.2.2.1⟩
  · rw [hf.word]; simp [hw]
  · rw [hf.word]; simp [hw]
  · rw [hf.data]
  · rw [hf.nwViol]
  · intro x hx; rw [heq] at hx; exact hwk x hx
  · intro v a _; rw [hf.wOwner] at a; exact a

theorem scanStep_re {s s' : State} {t : Tid} {r : Ret} {sc : Scan} {old : Word} (h1 : Inv1 s) (heq : s.pc t = .usReCas r sc old)
    (hs : afterPickup (pickup { s with word := { old with spin := true }, sp := some t } sc) t r sc = .ok s') (hw : s.word = old) :
    ScanStep s s' t := by
  have hok1 := h1.pcok t; rw [heq] at hok1
  obtain ⟨hf, p, hpc, hsc⟩ := afterPickup_frame hs hok1.2
  obtain ⟨hlo, _⟩ := afterPickup_lists hs
  have hwk := afterPickup_wake hs
  have hpt : ScanPc r sc.late (s'.pc t) := by rw [hpc]; simpa using hsc
  refine ⟨⟨r, sc.late, by rw [heq]; rfl, hpt⟩, ?_, ?_, ?_, ?_, ?_, ?_, ?_⟩
  · intro x; exact ⟨(hlo x).2.1, (hlo x).2.2.1, (hlo x).2.2.2.2.1⟩
  · rw [hf.word]; simp [hw]
  · rw [hf.word]; simp [hw]
  · rw [hf.data]
  · rw [hf.nwViol]
  · intro x hx; rw [heq] at hx; exact hwk x hx
  · intro v a _; rw [hf.wOwner] at a; exact a

theorem scanStep_rc {s s' : State} {t : Tid} {r : Ret} {sc : Scan} {k : Wid} {old new : Nat} (h1 : Inv1 s)
    (heq : s.pc t = .usRcCas r sc k old)
    (hs : scanRun 3 { s with wr := setFn s.wr k { s.wr k with rc := new } } t r sc = .ok s') :
    ScanStep s s' t := by
  have hok1 := h1.pcok t; rw [heq] at hok1
  obtain ⟨hf, p, hpc, hsc⟩ := scanRun_frame _ _ t r sc s' hs hok1.2
  obtain ⟨hlo, _⟩ := scanRun_lists _ _ t r sc s' hs
  have hwk := scanRun_wake _ _ t r sc s' hs
  have hpt : ScanPc r sc.late (s'.pc t) := by rw [hpc]; simpa using hsc
  refine ⟨⟨r, sc.late, by rw [heq]; rfl, hpt⟩, ?_, ?_, ?_, ?_, ?_, ?_, ?_⟩
  · intro x
    have := hlo x
    simp only [setFn] at this
    refine ⟨?_, ?_, ?_⟩
    · rw [this.2.1]; split <;> simp_all
    · rw [this.2.2.1]; split <;> simp_all
    · rw [this.2.2.2.2.1]; split <;> simp_all
  · rw [hf.word]
  · rw [hf.word]
  · rw [hf.data]
  · rw [hf.nwViol]
  · intro x hx; rw [heq] at hx; exact hwk x hx
  · intro v a _; rw [hf.wOwner] at a; exact a

theorem scanStep_eval {s s' : State} {t : Tid} {r : Ret} {sc : Scan} {res : Bool} (h1 : Inv1 s) (heq : s.pc t = .usEval r sc)
    (hs : afterEval s t r sc res = .ok s') : ScanStep s s' t := by
  have hok1 := h1.pcok t; rw [heq] at hok1
  obtain ⟨hf, p, hpc, hsc⟩ := afterEval_frame hs hok1.2.1
  obtain ⟨hlo, _⟩ := afterEval_lists hs
  have hwk := afterEval_wake hs
  have hpt : ScanPc r sc.late (s'.pc t) := by rw [hpc]; simpa using hsc
  refine ⟨⟨r, sc.late, by rw [heq]; rfl, hpt⟩, ?_, ?_, ?_, ?_, ?_, ?_, ?_⟩
  · intro x; exact ⟨(hlo x).2.1, (hlo x).2.2.1, (hlo x).2.2.2.2.1⟩
  · rw [hf.word]
  · rw [hf.word]
  · rw [hf.data]
  · rw [hf.nwViol]
  · intro x hx; rw [heq] at hx; exact hwk x hx
  · intro v a _; rw [hf.wOwner] at a; exact a

end NsyncVerif.MuC
