import NsyncVerif.Proofs.MuCTLWait
/-
  MuC, `WaitTL`: semaphore / note events, CAS steps and condition evaluations.
-/
namespace NsyncVerif.MuC

theorem waitTL_sem {cfg : Cfg} {s s' : State} {e : Event} {t : Tid} (h1 : Inv1 s)
    (he : match e with
      | .semPEnter u _ | .semPRet u _ | .semPdEnter u _ _ | .semPdRet u _ _ | .semV u _ | .noteSeen u | .noteNotify u => u = t
      | _ => False)
    (h : step cfg s e = .ok s') : WaitTL s s' t := by
  have hok := h1.pcok t
  cases e <;> simp only at he <;> subst he
  all_goals walk_sem h => wait_tl

theorem waitTL_casA {s s' : State} {t : Tid} {o : Ord} {loc : Loc} {exp new obs : Nat} {ok : Bool} (h1 : Inv1 s)
    (hp : (s.pc t).casA = true) (h : stepCas s t o loc exp new obs ok = .ok s') : WaitTL s s' t := by
  have hoth := stepCas_other h
  have hok := h1.pcok t
  walk_cas h StepTL.wt => wait_tl

theorem waitTL_casB {s s' : State} {t : Tid} {o : Ord} {loc : Loc} {exp new obs : Nat} {ok : Bool} (h1 : Inv1 s)
    (hp : (s.pc t).casA = false) (h : stepCas s t o loc exp new obs ok = .ok s') : WaitTL s s' t := by
  have hoth := stepCas_other h
  have hok := h1.pcok t
  walk_cas h StepTL.wt => wait_tl

theorem waitTL_cas {s s' : State} {t : Tid} {o : Ord} {loc : Loc} {exp new obs : Nat} {ok : Bool} (h1 : Inv1 s)
    (h : stepCas s t o loc exp new obs ok = .ok s') : WaitTL s s' t := by
  cases hp : (s.pc t).casA
  · exact waitTL_casB h1 hp h
  · exact waitTL_casA h1 hp h

theorem waitTL_cond {s s' : State} {t : Tid} {fn : CFn} {k : Nat} {res : Bool} (h1 : Inv1 s)
    (h : stepCond s t fn k res = .ok s') : WaitTL s s' t := by
  have hoth := stepCond_other h
  have hok := h1.pcok t
  walk_cond h StepTL.wt => wait_tl

end NsyncVerif.MuC
