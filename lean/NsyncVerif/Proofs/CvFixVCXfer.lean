/-
  Layer `CvFix` × vector clocks: records TRANSFERRED to the mutex queue by wake_waiters
  (cv.c:64-135).  The waker takes the mutex' spinlock with `ATM_CAS_ACQ (&pmu->word, …)` [cv.c/1],
  moves the records (plain accesses), and releases it with `ATM_CAS_REL (&pmu->word, …)` [cv.c/3].
  The wake-up itself comes later from the mutex unlock path (mu.c), which is not in this layer.
  What this layer can carry: once the waker has released the mutex' spinlock, its clock (from
  before the transfer) is covered by the RELEASE CLOCK of the mutex word — whoever later acquires
  that word (mu.c does, with ATM_CAS_ACQ, before it dequeues and wakes the waiter) inherits it.
-/
import NsyncVerif.Proofs.CvFixVCInv

namespace NsyncVerif.CvFix
open NsyncVerif

/-- wake_waiters holds the mutex' spinlock (between cv.c/1 succeeded and cv.c/3 succeeded). -/
def Loc.muHeld : Loc → Bool
  | .wwRelLd | .wwRelCas | .wwRelLd2 => true
  | _ => false

/-! ### entering `xfer` -/

def XferEntry (s : State) (e : Event) (s' : State) (r : Rid) : Prop :=
  ((s.recs r).stat = .xfer ∧ (s'.recs r).unl = (s.recs r).unl) ∨
  (∃ u exp new obs, e = .muCas u .wwCas exp new obs true ∧ (s.recs r).stat = .listed u ∧
    (s'.recs r).unl = (s.recs r).unl ∧ (s'.thr u).loc = .wwRelLd)

theorem xe_same {s s' : State} {e : Event} (h : s'.recs = s.recs) (r : Rid)
    (hw : (s'.recs r).stat = .xfer) : XferEntry s e s' r := by
  rw [h] at hw; exact .inl ⟨hw, by rw [h]⟩

theorem xe_one {s s' : State} {e : Event} {r0 : Rid} (ho : ∀ q, q ≠ r0 → s'.recs q = s.recs q)
    (h0 : (s'.recs r0).stat ≠ .xfer) (r : Rid) (hw : (s'.recs r).stat = .xfer) :
    XferEntry s e s' r := by
  by_cases hr : r = r0
  · subst hr; exact absurd hw h0
  · rw [ho r hr] at hw; exact .inl ⟨hw, by rw [ho r hr]⟩

theorem xe_keep {s s' : State} {e : Event} {r0 : Rid} (ho : ∀ q, q ≠ r0 → s'.recs q = s.recs q)
    (h0 : (s'.recs r0).stat = (s.recs r0).stat ∧ (s'.recs r0).unl = (s.recs r0).unl) (r : Rid)
    (hw : (s'.recs r).stat = .xfer) : XferEntry s e s' r := by
  by_cases hr : r = r0
  · subst hr; rw [h0.1] at hw; exact .inl ⟨hw, h0.2⟩
  · rw [ho r hr] at hw; exact .inl ⟨hw, by rw [ho r hr]⟩

theorem xfer_entry {cfg : Config} {s s' : State} {e : Event} (ha : InvA s) (h : Tr cfg s e s')
    (r : Rid) (hw : (s'.recs r).stat = .xfer) : XferEntry s e s' r := by
  cases h with
  | same e h => exact xe_same rfl r hw
  | tick ns h => exact xe_same rfl r hw
  | semOther e sem' h => exact xe_same rfl r hw
  | loc h => exact xe_same rfl r hw
  | acq t exp new obs o n hl hexp hw' he ho hn hnew =>
    unfold afterAcquire at hw ⊢
    split at hw
    · exact xe_one (r0 := (s.thr t).r) (fun q hq => by simp [hq]) (by simp) r hw
    · exact xe_same rfl r hw
    · exact xe_same rfl r hw
    · exact xe_same rfl r hw
    · dsimp only at hw ⊢
      by_cases hq : (if (s.thr t).bcast = true then s.queue else sigSelect s.recs s.queue).contains r = true
      · simp only [hq, if_true] at hw; cases hw
      · simp only [hq] at hw
        exact .inl ⟨hw, by simp only [hq]; rfl⟩
  | relWait t new obs n hl hh hnew hn hsp =>
    exact xe_keep (r0 := (s.thr t).r) (fun q hq => by simp [hq]) (by simp) r hw
  | relEnq t new obs n hl hh hnew hn hsp =>
    exact xe_keep (r0 := (s.thr t).r) (fun q hq => by simp [hq]) (by simp) r hw
  | relWait2 t new obs n hl hh hnew hn hsp => exact xe_same rfl r hw
  | relSig t site new obs n hl hs hh hnew hn hsp => exact xe_same rfl r hw
  | relDeq t new obs n hl hh hnew hn hsp =>
    refine xe_one (r0 := (s.thr t).r) (fun q hq => by simp [hq]) ?_ r hw
    simp; cases (s.recs (s.thr t).r).stat <;> simp
  | relDeqW t new obs n hl hh hnew hn hsp => exact xe_same rfl r hw
  | relDbg t new obs n hl hh hnew hn hsp => exact xe_same rfl r hw
  | wHeadExit t r0 y hy hl hr hw' =>
    exact xe_one (r0 := r0) (fun q hq => by simp [hq]) (by simp) r hw
  | wCmpEq t r0 obs hl hr ho he =>
    exact xe_one (r0 := r0) (fun q hq => by simp [hq]) (by simp) r hw
  | deqLdQueued t r0 obs hl hr hw' hq =>
    exact xe_one (r0 := r0) (fun q hq => by simp [hq]) (by simp) r hw
  | deqSpinExit t r0 hl hr hw' =>
    refine xe_one (r0 := r0) (fun q hq => by simp [hq]) ?_ r hw
    simp; cases (s.recs r0).stat <;> simp
  | wSt1 t r0 obs hl hm hst =>
    exact xe_one (r0 := r0) (fun q hq => by simp [hq]) (by simp) r hw
  | wClr t r0 obs hl hr =>
    exact xe_keep (r0 := r0) (fun q hq => by simp [hq]) (by simp) r hw
  | wake t r0 obs hl hr =>
    have hst : (s.recs r0).stat = .listed t := (ha.lMem t r0).mp (head_mem' hr)
    exact xe_one (r0 := r0) (fun q hq => by simp [hq]) (by simp [hst]) r hw
  | enqSt t r0 obs hl hm hst ho he =>
    exact xe_one (r0 := r0) (fun q hq => by simp [hq]) (by simp) r hw
  | deqSt t r0 obs hl hr =>
    exact xe_keep (r0 := r0) (fun q hq => by simp [hq]) (by simp) r hw
  | wRmCasOk t r0 exp new obs hl hr hn ho he =>
    exact xe_keep (r0 := r0) (fun q hq => by simp [hq]) (by simp) r hw
  | sRcCasOk t site r0 exp new obs hl hr hn ho he =>
    exact xe_keep (r0 := r0) (fun q hq => by simp [hq]) (by simp) r hw
  | muMode t obs lt hl hlt =>
    exact xe_keep (r0 := (s.thr t).r) (fun q hq => by simp [hq]) (by simp) r hw
  | wwCasOk t exp new obs f rest hl hlist =>
    dsimp only at hw ⊢
    by_cases hq : (transferSet s.recs (firstCantAcquire (s.recs f).lt exp) (s.thr t).list).contains r = true
    · have hst : (s.recs r).stat = .listed t :=
        (ha.lMem t r).mp (transferSet_subset _ _ _ r (by simpa using hq))
      exact .inr ⟨t, exp, new, obs, rfl, hst, by simp only [hq, if_true], by simp⟩
    · simp only [hq] at hw
      exact .inl ⟨hw, by simp only [hq]; rfl⟩
  | semVWake t k r0 q hl hc =>
    exact xe_keep (r0 := r0) (fun q hq => by simp [hq]) (by simp) r hw
  | semPdRetOkW t k hl => exact xe_same rfl r hw
  | semPdRetOkC t k hl => exact xe_same rfl r hw
  | wInit t r0 hl hm hst =>
    exact xe_keep (r0 := r0) (fun q hq => by simp [hq]) (by simp) r hw
  | nwInit t r0 hl hm hst =>
    exact xe_keep (r0 := r0) (fun q hq => by simp [hq]) (by simp) r hw
  | fStW t r0 new hl hf' =>
    exact xe_keep (r0 := r0) (fun q hq => by simp [hq]) (by simp) r hw
  | fCasOk t r0 exp new obs hl hf' hn ho he =>
    exact xe_keep (r0 := r0) (fun q hq => by simp [hq]) (by simp) r hw

/-! ### the mutex' spinlock is given up only by the successful `ATM_CAS_REL` [cv.c/3] -/

def MuLeave (e : Event) (s' : State) (u : Tid) : Prop :=
  (s'.thr u).loc.muHeld = true ∨ ∃ exp new obs, e = .muCas u .wwRelCas exp new obs true

theorem ml_actor {s s' : State} {e : Event} {t0 : Tid} (ho : ∀ u, u ≠ t0 → s'.thr u = s.thr u)
    (h0 : (s.thr t0).loc.muHeld = true → MuLeave e s' t0) (u : Tid)
    (hm : (s.thr u).loc.muHeld = true) : MuLeave e s' u := by
  by_cases h : u = t0
  · subst h; exact h0 hm
  · left; rw [ho u h]; exact hm

theorem ml_ltr {s : State} {t : Tid} {e : Event} {x' : Thr} (h : LTr s t e x')
    (hm : (s.thr t).loc.muHeld = true) : MuLeave e (s.setThr t x') t := by
  cases h with
  | wwRelLd site obs hl => left; simp [Loc.muHeld]
  | wwRelCasOk exp new obs hl => exact .inr ⟨exp, new, obs, rfl⟩
  | wwRelCasFail exp new obs hl => left; simp [Loc.muHeld]
  | retWait res hl hr => rcases hl with hl | hl <;> rw [hl] at hm <;> cases hm
  | spinLd site obs hl ho => rcases hl with ⟨_, hl⟩ | ⟨_, hl⟩ <;> rw [hl] at hm <;> cases hm
  | noteSeen hl => rcases hl with hl | hl | hl <;> rw [hl] at hm <;> cases hm
  | wChk y r obs hy hl hr ho hso =>
    exfalso
    cases hy <;> simp_all [Loc.muHeld]
  | wTail y r obs hy hl hr ho =>
    exfalso
    cases hy <;> simp_all [Loc.muHeld]
  | _ => exfalso; simp_all [Loc.muHeld]

theorem mu_leave {cfg : Config} {s s' : State} {e : Event} (h : Tr cfg s e s') (u : Tid)
    (hm : (s.thr u).loc.muHeld = true) : MuLeave e s' u := by
  cases h with
  | same e h => exact .inl hm
  | tick ns h => exact .inl hm
  | semOther e sem' h => exact .inl hm
  | loc h =>
    rename_i t0 x'
    exact ml_actor (t0 := t0) (fun u hu => by simp [hu]) (ml_ltr h) u hm
  | acq t0 exp new obs o n hl hexp hw he ho hn hnew =>
    refine ml_actor (t0 := t0) (fun u hu => by rw [afterAcquire_thr_other _ _ _ _ hu]) ?_ u hm
    intro h; rw [hl] at h; cases h
  | wInit t0 r hl hm' hst => exact .inl hm
  | nwInit t0 r hl hm' hst => exact .inl hm
  | fStW t0 r new hl hf' => exact .inl hm
  | fCasOk t0 r exp new obs hl hf' hn ho he => exact .inl hm
  | relWait t0 new obs n hl hh hnew hn hsp =>
    refine ml_actor (t0 := t0) (fun u hu => by simp [hu]) ?_ u hm
    intro h; rw [hl] at h; cases h
  | relWait2 t0 new obs n hl hh hnew hn hsp =>
    refine ml_actor (t0 := t0) (fun u hu => by simp [hu]) ?_ u hm
    intro h; rw [hl] at h; cases h
  | relSig t0 site new obs n hl hs hh hnew hn hsp =>
    refine ml_actor (t0 := t0) (fun u hu => by simp [hu]) ?_ u hm
    intro h; rw [hl] at h; cases h
  | relEnq t0 new obs n hl hh hnew hn hsp =>
    refine ml_actor (t0 := t0) (fun u hu => by simp [hu]) ?_ u hm
    intro h; rw [hl] at h; cases h
  | relDeq t0 new obs n hl hh hnew hn hsp =>
    refine ml_actor (t0 := t0) (fun u hu => by simp [hu]) ?_ u hm
    intro h; rw [hl] at h; cases h
  | relDeqW t0 new obs n hl hh hnew hn hsp =>
    refine ml_actor (t0 := t0) (fun u hu => by simp [hu]) ?_ u hm
    intro h; rw [hl] at h; cases h
  | relDbg t0 new obs n hl hh hnew hn hsp =>
    refine ml_actor (t0 := t0) (fun u hu => by simp [hu]) ?_ u hm
    intro h; rw [hl] at h; cases h
  | wHeadExit t0 r y hy hl hr hw =>
    subst hy
    refine ml_actor (t0 := t0) (fun u hu => by simp [hu]) ?_ u hm
    intro h; rw [hl] at h; cases h
  | wCmpEq t0 r obs hl hr ho he =>
    refine ml_actor (t0 := t0) (fun u hu => by simp [hu]) ?_ u hm
    intro h; rw [hl] at h; cases h
  | deqLdQueued t0 r obs hl hr hw hq =>
    refine ml_actor (t0 := t0) (fun u hu => by simp [hu]) ?_ u hm
    intro h; rw [hl] at h; cases h
  | deqSpinExit t0 r hl hr hw =>
    refine ml_actor (t0 := t0) (fun u hu => by simp [hu]) ?_ u hm
    intro h; rw [hl] at h; cases h
  | wSt1 t0 r obs hl hm' hst =>
    refine ml_actor (t0 := t0) (fun u hu => by simp [hu]) ?_ u hm
    intro h; rw [hl] at h; cases h
  | wClr t0 r obs hl hr =>
    refine ml_actor (t0 := t0) (fun u hu => by simp [hu]) ?_ u hm
    intro h; rw [hl] at h; cases h
  | wake t0 r obs hl hr =>
    refine ml_actor (t0 := t0) (fun u hu => by simp [hu]) ?_ u hm
    intro h; rw [hl] at h; cases h
  | enqSt t0 r obs hl hm' hst ho he =>
    refine ml_actor (t0 := t0) (fun u hu => by simp [hu]) ?_ u hm
    intro h; rw [hl] at h; cases h
  | deqSt t0 r obs hl hr =>
    refine ml_actor (t0 := t0) (fun u hu => by simp [hu]) ?_ u hm
    intro h; rw [hl] at h; cases h
  | wRmCasOk t0 r exp new obs hl hr hn ho he =>
    refine ml_actor (t0 := t0) (fun u hu => by simp [hu]) ?_ u hm
    intro h; rw [hl] at h; cases h
  | sRcCasOk t0 site r exp new obs hl hr hn ho he =>
    refine ml_actor (t0 := t0) (fun u hu => by simp [hu]) ?_ u hm
    intro h; rw [hl] at h; cases h
  | muMode t0 obs lt hl hlt =>
    refine ml_actor (t0 := t0) (fun u hu => by simp [hu]) ?_ u hm
    intro h; rw [hl] at h; cases h
  | wwCasOk t0 exp new obs f rest hl hlist =>
    refine ml_actor (t0 := t0) (fun u hu => by simp [hu]) ?_ u hm
    intro _; left; simp [Loc.muHeld]
  | semVWake t0 k r q hl hc =>
    refine ml_actor (t0 := t0) (fun u hu => by simp [hu]) ?_ u hm
    intro h; rw [hl] at h; cases h
  | semPdRetOkW t0 k hl =>
    refine ml_actor (t0 := t0) (fun u hu => by simp [hu]) ?_ u hm
    intro h; rw [hl] at h; cases h
  | semPdRetOkC t0 k hl =>
    refine ml_actor (t0 := t0) (fun u hu => by simp [hu]) ?_ u hm
    intro h; rw [hl] at h; cases h

/-! ### the invariant -/

/-- A transferred record: the ghost `xf r` is its transfer, the waker is the record's unlinker, and
    the waker's clock from before the transfer is covered by the release clock of the mutex word —
    or the waker still holds the mutex' spinlock (it has not yet executed its `ATM_CAS_REL`
    successfully) and its own clock covers it. -/
structure XInv (p : PState) : Prop where
  xfer : ∀ r, (p.s.recs r).stat = .xfer → ∃ w, p.xf r = some w ∧
    (p.s.recs r).unl = [Unl.waker w.by_] ∧ VC.Clock.le w.call w.clk ∧
    (VC.Clock.le w.clk (p.c.relc .mu) ∨
      ((p.s.thr w.by_).loc.muHeld = true ∧ VC.Clock.le w.clk (p.c.vc w.by_)))

theorem xinv_init : XInv pinit := by
  constructor
  intro r h; simp [pinit, init] at h

theorem stOn_ne_mu (e : Event) : stOn e ≠ some .mu := by
  cases e <;> simp [stOn]

theorem xfUpd_keep (p : PState) (s' : State) (e : Event) (r : Rid) (h : (p.s.recs r).stat = .xfer) :
    xfUpd p s' e r = p.xf r := by
  cases e <;> try rfl
  case muCas u site exp new obs ok =>
    cases site <;> try rfl
    cases ok <;> try rfl
    simp [xfUpd, h]

theorem xinv_step {cfg : Config} {fo : Nat → VC.Ord} {p : PState} {e : Event} {s' : State}
    (hi : Inv p.s) (hf : InvF p.s) (hv : VInv p) (hx : XInv p) (hs : step cfg p.s e = .ok s') :
    XInv (pnext fo p e s') := by
  have htr := step_tr hs
  constructor
  intro r hw'
  rcases xfer_entry hi.a htr r hw' with ⟨hw, hu⟩ | ⟨u, exp, new, obs, rfl, hst, hu, hl⟩
  · obtain ⟨w, h1, h2, h3, h4⟩ := hx.xfer r hw
    refine ⟨w, ?_, ?_, h3, ?_⟩
    · simp only [pnext]; rw [xfUpd_keep p s' e r hw]; exact h1
    · simp only [pnext]; rw [hu]; exact h2
    · rcases h4 with h4 | ⟨h4, h5⟩
      · exact .inl (cstep_keep (fo p.n) _ _ _ _ (stOn_ne_mu e) h4)
      · rcases mu_leave htr w.by_ h4 with h6 | ⟨exp, new, obs, rfl⟩
        · exact .inr ⟨h6, VC.Clock.le_trans h5 (cstep_mono (fo p.n) _ _ _)⟩
        · exact .inl (VC.Clock.le_trans h5 (cstep_mu_cas_rel (fo p.n) p.c w.by_ exp new obs))
  · refine ⟨⟨u, p.c.vc u, p.cc u⟩, ?_, ?_, hv.call u, .inr ⟨?_, ?_⟩⟩
    · have hw'' : (s'.recs r).stat = .xfer := hw'
      simp [pnext, xfUpd, hw'', hst]
    · simp only [pnext]; rw [hu]; exact hf.unlL r u hst
    · simp only [pnext]; rw [hl]; rfl
    · show VC.Clock.le (p.c.vc u) ((cstep (fo p.n) p.c (.muCas u .wwCas exp new obs true)).vc u)
      exact cstep_mono (fo p.n) p.c _ u

theorem xinv_prun {cfg : Config} {fo : Nat → VC.Ord} {evs : List Event} {p p' : PState}
    (hr : Reachable cfg p.s) (hv : VInv p) (hx : XInv p) (h : prun cfg fo p evs = .ok p') :
    XInv p' := by
  induction evs generalizing p with
  | nil => simp only [prun, Except.ok.injEq] at h; subst h; exact hx
  | cons e es ih =>
    simp only [prun] at h
    split at h
    · rename_i p1 hp
      obtain ⟨s1, hs, rfl⟩ := pstep_ok hp
      have hi := inv_reachable hr
      have hf := invF_reachable hr
      exact ih (p := pnext fo p e s1) (reachable_step hr hs) (vinv_step hi hf hv hs)
        (xinv_step hi hf hv hx hs) h
    · cases h

theorem xinv_preachable {cfg : Config} {fo : Nat → VC.Ord} {p : PState}
    (h : PReachable cfg fo p) : XInv p := by
  obtain ⟨evs, h⟩ := h
  exact xinv_prun ⟨[], rfl⟩ vinv_init xinv_init h

end NsyncVerif.CvFix
