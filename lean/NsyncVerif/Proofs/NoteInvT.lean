/-
  Layer `Note`, invariant family T: parent pointers are backed by the children lists
  (`c->parent == p` implies `c` is in `p->children`).  This direction holds unconditionally (no
  appeal to the locks); the converse (`InvForest.c2p`, Proofs/NoteRelF4.lean) needs the locking
  discipline.
-/
import NsyncVerif.Proofs.NoteInvU

set_option linter.unusedSimpArgs false

namespace Note

/-- If `c` leaves the children list of `p`, its parent pointer does not point to `p` afterwards. -/
theorem eq_of_mem_of_not_mem_erase {l : List NoteId} {c x : NoteId} (h1 : c ∈ l)
    (h2 : c ∉ l.erase x) : c = x := by
  by_cases h : c = x
  · exact h
  · exact absurd ((List.mem_erase_of_ne h).mpr h1) h2

theorem step_child_lost {s s' : State} {e : Event} (hS : InvS s) (hL : InvL s)
    (hs : step s e = .ok s')
    (p c : NoteId) (hc : c ∈ (s.notes p).children) (hc' : c ∉ (s'.notes p).children) :
    (s'.notes c).parent ≠ some p := by
  have hcl := hL.claim
  cases e
  all_goals step_cases hs
  all_goals (try exact absurd hc hc')
  all_goals (try (exact absurd hc (by simpa using hc')))
  all_goals (repeat' split at hc')
  all_goals (try (exact absurd hc (by simpa using hc')))
  -- nsync_note_new appends: nothing is lost
  all_goals (try (
    exfalso; apply hc'
    simp only [setPc_notes, link_f_children, setExpiry_f_children]
    split
    · exact List.mem_append_left _ hc
    · exact hc))
  -- adoption: the child leaves n's list and points to n's parent
  all_goals (try (
    rename_i t0 _ n0 c0 nx0 _ _ p0 hpc0 _
    have hcl0 := hcl t0
    rw [hpc0] at hcl0
    have hne : p0 ≠ n0 := (hcl0.2.1 p0 rfl).2
    simp only [setPc_notes, link_f_children, eraseChild_f_children, acquire_f_children,
      link_f_parent, setAdopted_f_children, setAdopted_f_parent] at hc' ⊢
    by_cases hpn : p = n0
    · subst hpn
      rw [if_neg (fun h => hne h.symm), if_pos rfl] at hc'
      have := eq_of_mem_of_not_mem_erase hc hc'
      subst this
      rw [if_pos rfl]
      exact fun h => hne (Option.some.inj h)
    · exfalso; apply hc'
      rw [if_neg hpn]
      split
      · exact List.mem_append_left _ hc
      · exact hc))
  -- a parentless note drops the child
  all_goals (try (
    rename_i t0 _ n0 c0 nx0 _ _ hpc0 _
    simp only [setPc_notes, clearParent_f_children, eraseChild_f_children, acquire_f_children,
      clearParent_f_parent] at hc' ⊢
    by_cases hpn : p = n0
    · subst hpn
      rw [if_pos rfl] at hc'
      have := eq_of_mem_of_not_mem_erase hc hc'
      subst this
      simp
    · rw [if_neg hpn] at hc'; exact absurd hc hc'))
  -- disconnections
  all_goals (try (
    simp only [setPc_notes, childReturn_f_children, unlink_f_children, acquire_f_children,
      childReturn_f_parent, unlink_f_parent, acquire_f_parent] at hc' ⊢
    split at hc'
    · next hp =>
      have := eq_of_mem_of_not_mem_erase hc hc'
      subst this
      simp [hp]
    · exact absurd hc hc'))
  -- malloc
  · rename_i k hfresh
    simp only [setPc_notes, allocNote_f] at hc' ⊢
    split at hc'
    · next hp =>
      subst hp
      split
      · simp [NoteRec.blank]
      · intro h
        have := hS.anc _ _ (hS.parent p c h).1
        rw [hfresh] at this; cases this
    · exact absurd hc hc'

/-- A parent pointer is set together with the insertion into the parent's children list. -/
theorem step_parent_linked {s s' : State} {e : Event} (hs : step s e = .ok s') (p c : NoteId)
    (hc : (s'.notes c).parent = some p) :
    (s.notes c).parent = some p ∨ c ∈ (s'.notes p).children := by
  cases e
  all_goals step_cases hs
  all_goals (try (left; exact hc))
  all_goals (try (left; simpa using hc))
  all_goals (repeat' split at hc)
  all_goals (try (left; simpa using hc))
  -- nsync_note_new links the child
  all_goals (try (
    simp only [setPc_notes, link_f_parent, setExpiry_f_parent] at hc
    split at hc
    · next hp =>
      subst hp
      simp only [Option.some.injEq] at hc; subst hc
      right; simp
    · left; exact hc))
  -- nsync_note_free adopts a child
  all_goals (try (
    simp only [setPc_notes, link_f_parent, eraseChild_f_parent, acquire_f_parent,
      setAdopted_f_parent] at hc
    split at hc
    · next hp =>
      subst hp
      simp only [Option.some.injEq] at hc; subst hc
      right; simp
    · left; exact hc))
  -- parent pointers cleared
  all_goals (try (
    left
    simp only [setPc_notes, childReturn_f_parent, unlink_f_parent, acquire_f_parent,
      clearParent_f_parent, eraseChild_f_parent] at hc
    split at hc
    · simp at hc
    · exact hc))
  -- malloc
  · left
    simp only [setPc_notes, allocNote_f] at hc
    split at hc
    · simp [NoteRec.blank] at hc
    · exact hc

/-- `c->parent == p` implies that `c` is in `p->children`. -/
structure InvT (s : State) : Prop where
  p2c : ∀ p c, (s.notes c).parent = some p → c ∈ (s.notes p).children

theorem InvT.init : InvT Note.init := ⟨by simp [Note.init, NoteRec.blank]⟩

theorem step_invT {s s' : State} {e : Event} (hS : InvS s) (hL : InvL s) (hT : InvT s)
    (hs : step s e = .ok s') : InvT s' := by
  refine ⟨fun p c hpc => ?_⟩
  rcases step_parent_linked hs p c hpc with h | h
  · have hmem := hT.p2c p c h
    cases hd : decide (c ∈ (s'.notes p).children) with
    | true => exact of_decide_eq_true hd
    | false =>
      exact absurd hpc (step_child_lost hS hL hs p c hmem (of_decide_eq_false hd))
  · exact h

end Note
