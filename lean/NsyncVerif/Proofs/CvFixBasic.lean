/-
  Layer `CvFix` (cv.c with the repair of F3; adapted from the `Cv` file of the same name): projection lemmas for the state update functions.
-/
import NsyncVerif.Proofs.CvFixTrStep

namespace NsyncVerif.CvFix

@[simp] theorem setThr_thr (s : State) (t : Tid) (x : Thr) (u : Tid) :
    (s.setThr t x).thr u = if u = t then x else s.thr u := rfl
@[simp] theorem setThr_recs (s : State) (t : Tid) (x : Thr) : (s.setThr t x).recs = s.recs := rfl
@[simp] theorem setThr_queue (s : State) (t : Tid) (x : Thr) : (s.setThr t x).queue = s.queue := rfl
@[simp] theorem setThr_word (s : State) (t : Tid) (x : Thr) : (s.setThr t x).word = s.word := rfl
@[simp] theorem setThr_holder (s : State) (t : Tid) (x : Thr) : (s.setThr t x).holder = s.holder := rfl
@[simp] theorem setThr_now (s : State) (t : Tid) (x : Thr) : (s.setThr t x).now = s.now := rfl
@[simp] theorem setThr_seq (s : State) (t : Tid) (x : Thr) : (s.setThr t x).seq = s.seq := rfl
@[simp] theorem setThr_bad (s : State) (t : Tid) (x : Thr) : (s.setThr t x).bad = s.bad := rfl
@[simp] theorem setThr_sem (s : State) (t : Tid) (x : Thr) : (s.setThr t x).sem = s.sem := rfl

@[simp] theorem setRec_recs (s : State) (r : Rid) (v : Rec) (q : Rid) :
    (s.setRec r v).recs q = if q = r then v else s.recs q := rfl
@[simp] theorem setRec_thr (s : State) (r : Rid) (v : Rec) : (s.setRec r v).thr = s.thr := rfl
@[simp] theorem setRec_queue (s : State) (r : Rid) (v : Rec) : (s.setRec r v).queue = s.queue := rfl
@[simp] theorem setRec_word (s : State) (r : Rid) (v : Rec) : (s.setRec r v).word = s.word := rfl
@[simp] theorem setRec_holder (s : State) (r : Rid) (v : Rec) : (s.setRec r v).holder = s.holder := rfl
@[simp] theorem setRec_now (s : State) (r : Rid) (v : Rec) : (s.setRec r v).now = s.now := rfl
@[simp] theorem setRec_seq (s : State) (r : Rid) (v : Rec) : (s.setRec r v).seq = s.seq := rfl
@[simp] theorem setRec_bad (s : State) (r : Rid) (v : Rec) : (s.setRec r v).bad = s.bad := rfl
@[simp] theorem setRec_sem (s : State) (r : Rid) (v : Rec) : (s.setRec r v).sem = s.sem := rfl

@[simp] theorem updT_apply (f : Tid → Thr) (a : Tid) (b : Thr) (x : Tid) :
    updT f a b x = if x = a then b else f x := rfl

/-- The frame of the acting thread after the spinlock acquisition. -/
theorem afterAcquire_thr_other (s : State) (t : Tid) (x : Thr) (u : Tid) (h : u ≠ t) :
    (afterAcquire s t x).thr u = s.thr u := by
  unfold afterAcquire
  split <;> simp [h]

theorem afterAcquire_now (s : State) (t : Tid) (x : Thr) : (afterAcquire s t x).now = s.now := by
  unfold afterAcquire
  split <;> simp


/-- The frame of the acting thread after the acquisition, as far as C05 is concerned. -/
theorem afterAcquire_thr_self (s : State) (t : Tid) (x : Thr) :
    ((afterAcquire s t x).thr t).semOut = x.semOut ∧ ((afterAcquire s t x).thr t).dl = x.dl ∧
    ((afterAcquire s t x).thr t).sawNote = x.sawNote ∧ ((afterAcquire s t x).thr t).out = x.out ∧
    (((afterAcquire s t x).thr t).loc = .wEnq ∨ ((afterAcquire s t x).thr t).loc = .wChk2 ∨
     ((afterAcquire s t x).thr t).loc = .nLocked ∨ ((afterAcquire s t x).thr t).loc = .sRel ∨
     ((afterAcquire s t x).thr t).loc = .sRcLd ∨ ((afterAcquire s t x).thr t).loc = .dWalk) := by
  unfold afterAcquire
  split
  · simp
  · simp
  · simp
  · simp
  · dsimp only
    simp only [updT_apply, if_true]
    refine ⟨trivial, trivial, trivial, trivial, ?_⟩
    split <;> split <;> simp_all

end NsyncVerif.CvFix
