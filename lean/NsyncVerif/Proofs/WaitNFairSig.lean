/-
  Proofs/WaitNFairSig.lean — WaitN layer, liveness: every nsync_cv_signal / nsync_cv_broadcast call returns
  (`signal_returns`): load, test-and-set loop (`LockFair`), unlink under the spinlock, wake loop (descent), return.
-/
import NsyncVerif.Proofs.WaitNFairMain2

set_option linter.unusedSimpArgs false
set_option linter.unusedVariables false

namespace WaitN

variable {s0 : State}

/-- the wake loop and the return of nsync_cv_signal / broadcast -/
def sgLate : PC → Bool
  | .sg _ _ .ret | .sg _ _ (.wake _) => true
  | _ => false

theorem straight_of_late {p : PC} (h : sgLate p = true) : Straight p := by
  unfold sgLate at h
  split at h
  · exact ⟨by simp, rfl, rfl, rfl, rfl⟩
  · exact ⟨by simp, rfl, rfl, rfl, rfl⟩
  · cases h

theorem sg_late_stepSg {s s' : State} {u : Tid} {c : Nat} {bc : Bool} {st : SgSt} {e : Ev}
    (hst : st = .ret ∨ ∃ l, st = .wake l) (hpc : s.pc u = .sg c bc st)
    (h : stepSg s u c bc st e = .ok s') : s'.pc u = .idle ∨ sgLate (s'.pc u) = true := by
  rcases hst with rfl | ⟨l, rfl⟩
  · simp only [stepSg] at h
    split_ok h
    · cases h; left; simp
    · right; rw [(dflt_keeps h).1, hpc]; rfl
  · simp only [stepSg] at h
    split_ok h
    all_goals first
      | (right; rw [(dflt_keeps h).1, hpc]; rfl)
      | (cases h; right; simp [hpc, sgLate]; done)
      | (cases h; right; simp [sgLate]; done)

theorem sg_late_step {s s' : State} {u : Tid} {e : Ev} (h : stepThr s u e = .ok s') (hl : sgLate (s.pc u) = true) :
    s'.pc u = .idle ∨ sgLate (s'.pc u) = true := by
  unfold stepThr at h
  split at h <;> rename_i hpc
  all_goals first
    | (rw [hpc] at hl; cases hl; done)
    | (simp at h; done)
    | (rename_i c bc st
       refine sg_late_stepSg ?_ hpc h
       rw [hpc] at hl
       cases st <;> first | exact .inl rfl | exact .inr ⟨_, rfl⟩ | cases hl)

/-- from the wake loop the call returns -/
theorem sg_late_returns (x : Exec s0) (H : FairHyps x) (u : Tid) (j : Nat) (hl : sgLate ((x.ρ j).pc u) = true) :
    ∃ j', j ≤ j' ∧ (x.ρ j').pc u = .idle := by
  apply Classical.byContradiction
  intro hno
  have hlate : ∀ d, sgLate ((x.ρ (j + d)).pc u) = true := by
    intro d
    induction d with
    | zero => exact hl
    | succ d ih =>
      show sgLate ((x.ρ (j + d + 1)).pc u) = true
      cases hs : x.σ (j + d) with
      | none => rw [x.next_none hs]; exact ih
      | some ev =>
        have hstep := x.next_some hs
        cases ev with
        | tick ns => rw [(step_tick hstep).1]; exact ih
        | thr v e =>
          by_cases hv : v = u
          · subst hv
            rcases sg_late_step (step_thr hstep) ih with h | h
            · exact absurd ⟨j + d + 1, by omega, h⟩ hno
            · exact h
          · rw [(others_stepThr (step_thr hstep) u (fun h => hv h.symm)).1]; exact ih
  exact descent x H.reach H.weak u _ j rfl (fun j' hj' => by
    obtain ⟨d, rfl⟩ : ∃ d, j' = j + d := ⟨j' - j, by omega⟩
    exact straight_of_late (hlate d))

theorem sgNext_held {c : Nat} {bc : Bool} {p' : PC} (h : sgNext (.sg c bc .held) p') : sgLate p' = true := by
  rcases h with h | ⟨l, h⟩ <;> (rw [h]; rfl)

/-- with the spinlock held: unlink, release, wake loop, return -/
theorem sg_held_returns (x : Exec s0) (H : FairHyps x) (u : Tid) (c : Nat) (bc : Bool) (j : Nat)
    (hp : (x.ρ j).pc u = .sg c bc .held) : ∃ j', j ≤ j' ∧ (x.ρ j').pc u = .idle := by
  apply Classical.byContradiction
  intro hno
  by_cases hl : ∃ d, sgLate ((x.ρ (j + d)).pc u) = true
  · obtain ⟨d, hd⟩ := hl
    obtain ⟨j', h1, h2⟩ := sg_late_returns x H u (j + d) hd
    exact hno ⟨j', by omega, h2⟩
  · refine held_forever_false x H.reach H.weak u c bc j ?_
    intro d
    induction d with
    | zero => exact hp
    | succ d ih =>
      show (x.ρ (j + d + 1)).pc u = _
      obtain ⟨e, hprog, _⟩ := x.prog H.reach u (j + d)
      rcases hprog with h | h | ⟨ho, hd, h | h | h | h | h | h⟩
      · rw [ih] at h; cases h
      · exact absurd ⟨j + d + 1, by omega, h⟩ hno
      · rw [h.1]; exact ih
      · simp [rk, ih, rank] at h
      · rw [ih] at h; cases h.1
      · obtain ⟨k, hk, _⟩ := h; rw [ih] at hk; cases hk
      · rw [ih] at h; cases h.1
      · have := h.1; rw [ih] at this
        exact absurd ⟨d + 1, sgNext_held this⟩ hl

theorem sgNext_spin {p p' : PC} (hs : isSpin p = true) (h : sgNext p p') :
    ∃ c bc, (isSpin p' = true ∧ inCall p' = false ∧ ∀ f f', lockWaitOf p' f' = lockWaitOf p f) ∨ p' = .sg c bc .held := by
  unfold sgNext at h
  split at h
  · cases hs
  · rename_i c bc sp
    rcases h with ⟨sp', h⟩ | h
    · exact ⟨c, bc, .inl (by rw [h]; exact ⟨rfl, rfl, fun _ _ => rfl⟩)⟩
    · exact ⟨c, bc, .inr h⟩
  · cases hs
  · exact h.elim

/-- in the test-and-set loop: the spinlock is acquired (`LockFair`), then as above -/
theorem sg_spin_returns (x : Exec s0) (H : FairHyps x) (u : Tid) (c : Nat) (bc : Bool) (sp : SpinSt) (j : Nat)
    (hp : (x.ρ j).pc u = .sg c bc (.spin sp)) : ∃ j', j ≤ j' ∧ (x.ρ j').pc u = .idle := by
  apply Classical.byContradiction
  intro hno
  have hni : ∀ j', j ≤ j' → (x.ρ j').pc u ≠ .idle := fun j' hj h => hno ⟨j', hj, h⟩
  by_cases hl : ∃ d c' bc', (x.ρ (j + d)).pc u = .sg c' bc' .held
  · obtain ⟨d, c', bc', hd⟩ := hl
    obtain ⟨j', h1, h2⟩ := sg_held_returns x H u c' bc' (j + d) hd
    exact hno ⟨j', by omega, h2⟩
  · have hspin : ∀ d, isSpin ((x.ρ (j + d)).pc u) = true ∧ inCall ((x.ρ (j + d)).pc u) = false
        ∧ lockWaitOf ((x.ρ (j + d)).pc u) ((x.ρ (j + d)).fr u) = some (.cv c) := by
      intro d
      induction d with
      | zero => rw [show j + 0 = j from rfl, hp]; exact ⟨rfl, rfl, rfl⟩
      | succ d ih =>
        show isSpin ((x.ρ (j + d + 1)).pc u) = true ∧ inCall ((x.ρ (j + d + 1)).pc u) = false
          ∧ lockWaitOf ((x.ρ (j + d + 1)).pc u) ((x.ρ (j + d + 1)).fr u) = some (.cv c)
        obtain ⟨e, hprog, _⟩ := x.prog H.reach u (j + d)
        have hic := x.inCall_step u (j + d) (hni _ (by omega)) (hni _ (by omega))
        rcases hprog with h | h | ⟨ho, hd, h | h | h | h | h | h⟩
        · exact absurd h (hni _ (by omega))
        · exact absurd h (hni _ (by omega))
        · rw [h.1, lockWaitOf_objs ho]; exact ih
        · exfalso
          have h1 := ih.1; have h2 := ih.2.1
          revert h h1 h2
          simp only [rk]
          cases (x.ρ (j + d)).pc u <;> simp [isSpin, inCall, rank]
          rename_i a b st; cases st <;> simp [isSpin, rank]
        · exact ⟨h.2.1, by rw [hic]; exact ih.2.1, h.2.2.2.trans ih.2.2⟩
        · obtain ⟨k, hk, _⟩ := h; rw [hk] at ih; cases ih.1
        · have := isNfWake_not_spin h.1; rw [ih.1] at this; cases this
        · obtain ⟨c', bc', h' | h'⟩ := sgNext_spin ih.1 h.1
          · exact ⟨h'.1, h'.2.1, (h'.2.2 _ _).trans ih.2.2⟩
          · exact absurd ⟨d + 1, c', bc', h'⟩ hl
    exact H.lock u (.cv c) j (fun j' hj' => by
      obtain ⟨d, rfl⟩ : ∃ d, j' = j + d := ⟨j' - j, by omega⟩
      exact (hspin d).2.2) (fun j' _ => lock_free_again x H.reach H.weak H.foreign _ j')

/-- Every nsync_cv_signal / nsync_cv_broadcast call returns. -/
theorem signal_returns (x : Exec s0) (H : FairHyps x) (u : Tid) (c : Nat) (bc : Bool) (st : SgSt) (j : Nat)
    (hp : (x.ρ j).pc u = .sg c bc st) : ∃ j', j ≤ j' ∧ (x.ρ j').pc u = .idle := by
  cases st with
  | spin sp => exact sg_spin_returns x H u c bc sp j hp
  | held => exact sg_held_returns x H u c bc j hp
  | wake l => exact sg_late_returns x H u j (by rw [hp]; rfl)
  | ret => exact sg_late_returns x H u j (by rw [hp]; rfl)
  | load =>
    apply Classical.byContradiction
    intro hno
    have hni : ∀ j', j ≤ j' → (x.ρ j').pc u ≠ .idle := fun j' hj h => hno ⟨j', hj, h⟩
    by_cases hl : ∃ d, (x.ρ (j + d)).pc u = .sg c bc (.spin .ld) ∨ (x.ρ (j + d)).pc u = .sg c bc .ret
    · obtain ⟨d, hd | hd⟩ := hl
      · obtain ⟨j', h1, h2⟩ := sg_spin_returns x H u c bc .ld (j + d) hd
        exact hno ⟨j', by omega, h2⟩
      · obtain ⟨j', h1, h2⟩ := sg_late_returns x H u (j + d) (by rw [hd]; rfl)
        exact hno ⟨j', by omega, h2⟩
    · have hload : ∀ d, (x.ρ (j + d)).pc u = .sg c bc .load := by
        intro d
        induction d with
        | zero => exact hp
        | succ d ih =>
          show (x.ρ (j + d + 1)).pc u = _
          obtain ⟨e, hprog, _⟩ := x.prog H.reach u (j + d)
          rcases hprog with h | h | ⟨ho, hd, h | h | h | h | h | h⟩
          · exact absurd h (hni _ (by omega))
          · exact absurd h (hni _ (by omega))
          · rw [h.1]; exact ih
          · simp [rk, ih, rank] at h
          · rw [ih] at h; cases h.1
          · obtain ⟨k, hk, _⟩ := h; rw [ih] at hk; cases hk
          · rw [ih] at h; cases h.1
          · have := h.1; rw [ih] at this
            exact absurd ⟨d + 1, this⟩ hl
      obtain ⟨j2, hj2, hm⟩ := H.weak u j (fun j' hj' => by
        obtain ⟨d, rfl⟩ : ∃ d, j' = j + d := ⟨j' - j, by omega⟩
        exact ⟨.inl (by rw [hload d]; simp), not_blocked_of_pc (by rw [hload d]; rfl)⟩)
      obtain ⟨d, rfl⟩ : ∃ d, j2 = j + d := ⟨j2 - j, by omega⟩
      obtain ⟨e, hprog, _⟩ := x.prog H.reach u (j + d)
      have h1 := hload d
      have h2 : (x.ρ (j + d + 1)).pc u = .sg c bc .load := hload (d + 1)
      rcases hprog with h | h | ⟨ho, hd, h | h | h | h | h | h⟩
      · rw [h1] at h; cases h
      · rw [h2] at h; cases h
      · exact hm.elim (fun a => a h.1) (fun a => a h.2.1)
      · simp [rk, h1, rank] at h
      · rw [h1] at h; cases h.1
      · obtain ⟨k, hk, _⟩ := h; rw [h1] at hk; cases hk
      · rw [h1] at h; cases h.1
      · have := h.1; rw [h1, h2] at this
        rcases this with h' | h' <;> cases h'

end WaitN
