import NsyncVerif.Proofs.MuCScan
/-
  MuC: the share a program point owns, the facts about locals that hold at every program point
  (`PC.ok`), and the lock invariant (definitions and the lemmas that re-establish it).
-/
namespace NsyncVerif.MuC

/-- Facts about the locals of nsync_mu_wait_with_deadline that hold at every program point. -/
def MW.ok (c : MW) : Prop :=
  c.l = c.hm ∧ (c.so = .cancelled → c.saw = true) ∧ (c.outc = .cancelled → c.saw = true) ∧
  (c.hl = true → c.so ≠ .ok ∧ c.outc = c.so) ∧ (c.hl = false → c.outc = .ok)

/-- unlock_slow / lock_slow called from mu_wait: the locals they return to. -/
def MW.inner (c : MW) : Prop := c.ok ∧ c.hl = false ∧ c.so = .ok

def Ret.ok : Ret → Prop
  | .ul _ _ => True
  | .mw c => c.inner

def SL.okL (c : SL) : Prop :=
  match c.mw with
  | none => True
  | some m => m.ok ∧ m.hl = false ∧ c.l = m.l

def noLock (w : Word) : Prop := w.wlock = false ∧ w.readers = 0

def PC.ok : PC → Prop
  | .lkCas1 l old | .tryCas1 l old => blocked l false old = false
  | .lsLd c | .lsCasEnq c _ | .lsSt c | .lsRelLd c | .lsRelCas c _ | .lsWaitLd c | .lsPEnter c | .lsPRet c => c.okL
  | .lsCasAcq c old => c.okL ∧ blocked c.l c.ign old = false
  | .usLd r | .usCasUnc r _ => r.ok
  | .usCasGrab r old => r.ok ∧ hasShare r.mode old = true ∧ uncontended old = false
  | .usRelLd r sc | .usRelCas r sc _ | .usRcLd r sc _ | .usRcCas r sc _ _ | .usReLd r sc | .usReCas r sc _ => r.ok ∧ sc.ok
  | .usEval r sc => r.ok ∧ sc.ok ∧ sc.tc = true ∧ sc.todo ≠ []
  | .usFinLd r _ | .usFinCas r _ _ | .usWakeSt r _ _ | .usWakeV r _ _ => r.ok
  | .mwLd0 c => c.ok ∧ c.hl = false ∧ c.so = .ok
  | .mwEval c => c.ok
  | .mwStW c | .mwRcLd c | .mwEnqLd c | .mwEnqCas c _ | .mwRelLd c | .mwRelCas c _ _ => c.ok ∧ c.outc = .ok
  | .mwWaitLd c | .mwLd255 c => c.ok
  | .mwSem c | .mwPdRet c _ | .mwNotify c => c.inner
  | .mwLd244 c | .mtLd c | .mtCasWW c _ | .mtLdWk c _ => c.ok ∧ c.hl = false ∧ c.so ≠ .ok
  | .mtCasAcq c old | .mtLdW c old | .mtLdRc c old | .mtRmLd c old | .mtRmCas c old _ | .mtStW c old | .mtStRel c old _ =>
    c.ok ∧ c.hl = false ∧ c.so ≠ .ok ∧ noLock old
  | .mwRet c cit => c.ok ∧ (cit = false → c.outc ≠ .ok)
  | _ => True

def PcOk (s : State) : Prop := ∀ t, (s.pc t).ok

/-- The share a program point owns in the word (before the client sees it / after the client gave
    it up / the temporary writer lock of unlock_slow and of mu_try_acquire_after_timeout_or_cancel). -/
def pcShare : PC → Option Mode
  | .lkRet l => some l
  | .tryRet l true => some l
  | .ulCas0 l _ | .ulLd l _ | .ulCas1 l _ _ => some l
  | .usLd r | .usCasUnc r _ | .usCasGrab r _ => some r.mode
  | .usRelLd _ sc | .usRelCas _ sc _ | .usEval _ sc | .usRcLd _ sc _ | .usRcCas _ sc _ _ | .usReLd _ sc | .usReCas _ sc _ =>
    if sc.late then some .W else none
  | .usFinLd _ f | .usFinCas _ f _ => if f.late then some .W else none
  | .mwLd0 c | .mwEval c | .mwStW c | .mwRcLd c | .mwEnqLd c | .mwEnqCas c _ | .mwRelLd c | .mwRelCas c _ _ | .mwRet c _ => some c.l
  | .mwWaitLd c | .mwLd255 c => if c.hl then some c.l else none
  | .mtLdW _ _ | .mtLdRc _ _ | .mtRmLd _ _ | .mtRmCas _ _ _ | .mtStW _ _ | .mtStRel _ _ _ => some .W
  | _ => none

def tshare (held : Option Mode) (p : PC) : Option Mode :=
  match held with
  | some m => some m
  | none => pcShare p

/-- The share thread `t` owns in the word. -/
def shareOf (s : State) (t : Tid) : Option Mode := tshare (s.held t) (s.pc t)

/-- The client-visible ghost is only set between calls. -/
def HeldIdle (s : State) : Prop := ∀ t, s.held t ≠ none → s.pc t = .idle

/-- (I_lock) the lock bits of the word are exactly the shares the threads own. -/
structure LockInv (s : State) : Prop where
  wown : ∀ t, s.wOwner = some t ↔ shareOf s t = some .W
  rown : ∀ t, t ∈ s.rOwners ↔ shareOf s t = some .R
  nodup : s.rOwners.Nodup
  wl : s.word.wlock = s.wOwner.isSome
  rd : s.word.readers = s.rOwners.length
  excl : s.word.wlock = true → s.word.readers = 0

theorem LockInv.same {s s' : State} (h : LockInv s) (h1 : s'.word.wlock = s.word.wlock)
    (h2 : s'.word.readers = s.word.readers) (h3 : s'.wOwner = s.wOwner) (h4 : s'.rOwners = s.rOwners)
    (h5 : ∀ u, shareOf s' u = shareOf s u) : LockInv s' := by
  obtain ⟨a1, a2, a3, a4, a5, a6⟩ := h
  exact ⟨fun t => by rw [h3, h5]; exact a1 t, fun t => by rw [h4, h5]; exact a2 t, by rw [h4]; exact a3,
    by rw [h1, h3]; exact a4, by rw [h2, h4]; exact a5, by rw [h1, h2]; exact a6⟩

theorem LockInv.noOwner_of_free {s : State} (h : LockInv s) (hw : s.word.wlock = false) : s.wOwner = none := by
  have := h.wl; rw [hw] at this
  cases hs : s.wOwner with
  | none => rfl
  | some x => rw [hs] at this; cases this

theorem LockInv.noReaders {s : State} (h : LockInv s) (hr : s.word.readers = 0) : s.rOwners = [] := by
  have := h.rd; rw [hr] at this
  exact List.length_eq_zero_iff.mp this.symm

theorem LockInv.acquireW {s s' : State} {t : Tid} (h : LockInv s) (hn : shareOf s t = none)
    (hw : s.word.wlock = false) (hr : s.word.readers = 0)
    (h1 : s'.word.wlock = true) (h2 : s'.word.readers = 0) (h3 : s'.wOwner = some t) (h4 : s'.rOwners = s.rOwners)
    (h5 : shareOf s' t = some .W) (h6 : ∀ u, u ≠ t → shareOf s' u = shareOf s u) : LockInv s' := by
  have hno := h.noOwner_of_free hw
  have hnr := h.noReaders hr
  refine ⟨fun u => ?_, fun u => ?_, by rw [h4]; exact h.nodup, by rw [h1, h3]; rfl, by rw [h2, h4, hnr]; rfl, fun _ => h2⟩
  · by_cases hu : u = t
    · subst hu; rw [h3, h5]; simp
    · rw [h3, h6 u hu]
      constructor
      · intro e; cases e; exact absurd rfl hu
      · intro e; have := (h.wown u).2 e; rw [hno] at this; cases this
  · by_cases hu : u = t
    · subst hu; rw [h4, hnr, h5]; simp
    · rw [h4, h6 u hu]; exact h.rown u

theorem LockInv.acquireR {s s' : State} {t : Tid} (h : LockInv s) (hn : shareOf s t = none)
    (hw : s.word.wlock = false)
    (h1 : s'.word.wlock = false) (h2 : s'.word.readers = s.word.readers + 1) (h3 : s'.wOwner = s.wOwner)
    (h4 : s'.rOwners = t :: s.rOwners)
    (h5 : shareOf s' t = some .R) (h6 : ∀ u, u ≠ t → shareOf s' u = shareOf s u) : LockInv s' := by
  have hnt : t ∉ s.rOwners := fun e => by have := (h.rown t).1 e; rw [hn] at this; cases this
  refine ⟨fun u => ?_, fun u => ?_, by rw [h4]; exact List.nodup_cons.mpr ⟨hnt, h.nodup⟩,
    by rw [h1, h3, ← h.wl, hw], by rw [h2, h4, h.rd]; rfl, fun e => by rw [h1] at e; cases e⟩
  · by_cases hu : u = t
    · subst hu; rw [h3, h5]
      constructor
      · intro e; have := (h.wown u).1 e; rw [hn] at this; cases this
      · intro e; cases e
    · rw [h3, h6 u hu]; exact h.wown u
  · by_cases hu : u = t
    · subst hu; rw [h4, h5]; simp
    · rw [h4, h6 u hu, List.mem_cons]
      constructor
      · rintro (e | e)
        · exact absurd e hu
        · exact (h.rown u).1 e
      · intro e; exact Or.inr ((h.rown u).2 e)

theorem LockInv.releaseW {s s' : State} {t : Tid} (h : LockInv s) (ht : shareOf s t = some .W)
    (h1 : s'.word.wlock = false) (h2 : s'.word.readers = s.word.readers) (h3 : s'.wOwner = none)
    (h4 : s'.rOwners = s.rOwners)
    (h5 : shareOf s' t = none) (h6 : ∀ u, u ≠ t → shareOf s' u = shareOf s u) : LockInv s' := by
  have hown := (h.wown t).2 ht
  refine ⟨fun u => ?_, fun u => ?_, by rw [h4]; exact h.nodup, by rw [h1, h3]; rfl, by rw [h2, h4]; exact h.rd,
    fun e => by rw [h1] at e; cases e⟩
  · by_cases hu : u = t
    · subst hu; rw [h3, h5]; simp
    · rw [h3, h6 u hu]
      constructor
      · intro e; cases e
      · intro e; have := (h.wown u).2 e; rw [hown] at this; cases this; exact absurd rfl hu
  · by_cases hu : u = t
    · subst hu; rw [h4, h5]
      constructor
      · intro e; have := (h.rown u).1 e; rw [ht] at this; cases this
      · intro e; cases e
    · rw [h4, h6 u hu]; exact h.rown u

theorem LockInv.releaseR {s s' : State} {t : Tid} (h : LockInv s) (ht : shareOf s t = some .R)
    (h1 : s'.word.wlock = s.word.wlock) (h2 : s'.word.readers = s.word.readers - 1) (h3 : s'.wOwner = s.wOwner)
    (h4 : s'.rOwners = s.rOwners.erase t)
    (h5 : shareOf s' t = none) (h6 : ∀ u, u ≠ t → shareOf s' u = shareOf s u) : LockInv s' := by
  have hmem := (h.rown t).2 ht
  refine ⟨fun u => ?_, fun u => ?_, by rw [h4]; exact h.nodup.erase t, by rw [h1, h3]; exact h.wl,
    by rw [h2, h4, List.length_erase_of_mem hmem, h.rd], fun e => by rw [h1] at e; rw [h2, h.excl e]⟩
  · by_cases hu : u = t
    · subst hu; rw [h3, h5]
      constructor
      · intro e; have := (h.wown u).1 e; rw [ht] at this; cases this
      · intro e; cases e
    · rw [h3, h6 u hu]; exact h.wown u
  · by_cases hu : u = t
    · subst hu; rw [h4, h5]
      constructor
      · intro e; exact absurd e (List.Nodup.not_mem_erase h.nodup)
      · intro e; cases e
    · rw [h4, h6 u hu, List.mem_erase_of_ne hu]; exact h.rown u

/-- Writer lock converted to a reader lock (mu_wait.c:108 in reader mode). -/
theorem LockInv.downgrade {s s' : State} {t : Tid} (h : LockInv s) (ht : shareOf s t = some .W)
    (h1 : s'.word.wlock = false) (h2 : s'.word.readers = 1) (h3 : s'.wOwner = none)
    (h4 : s'.rOwners = t :: s.rOwners)
    (h5 : shareOf s' t = some .R) (h6 : ∀ u, u ≠ t → shareOf s' u = shareOf s u) : LockInv s' := by
  have hown := (h.wown t).2 ht
  have hwl : s.word.wlock = true := by rw [h.wl, hown]; rfl
  have hnr := h.noReaders (h.excl hwl)
  refine ⟨fun u => ?_, fun u => ?_, by rw [h4, hnr]; simp, by rw [h1, h3]; rfl, by rw [h2, h4, hnr]; rfl,
    fun e => by rw [h1] at e; cases e⟩
  · by_cases hu : u = t
    · subst hu; rw [h3, h5]; simp
    · rw [h3, h6 u hu]
      constructor
      · intro e; cases e
      · intro e; have := (h.wown u).2 e; rw [hown] at this; cases this; exact absurd rfl hu
  · by_cases hu : u = t
    · subst hu; rw [h4, h5]; simp
    · rw [h4, hnr, h6 u hu]
      constructor
      · intro e; simp at e; exact absurd e hu
      · intro e; have := (h.rown u).2 e; rw [hnr] at this; cases this

/-- Reader lock of the last reader converted to a writer lock (mu.c:301 with testing_conditions). -/
theorem LockInv.upgrade {s s' : State} {t : Tid} (h : LockInv s) (ht : shareOf s t = some .R)
    (hr : s.word.readers = 1)
    (h1 : s'.word.wlock = true) (h2 : s'.word.readers = 0) (h3 : s'.wOwner = some t)
    (h4 : s'.rOwners = s.rOwners.erase t)
    (h5 : shareOf s' t = some .W) (h6 : ∀ u, u ≠ t → shareOf s' u = shareOf s u) : LockInv s' := by
  have hmem := (h.rown t).2 ht
  have hlen : s.rOwners.length = 1 := by rw [← h.rd, hr]
  have hro : s.rOwners = [t] := by
    match hq : s.rOwners, hlen with
    | [x], _ => rw [hq] at hmem; simp at hmem; rw [hmem]
  have hnw : s.wOwner = none := by
    cases hw : s.word.wlock with
    | false => exact h.noOwner_of_free hw
    | true => have := h.excl hw; rw [hr] at this; cases this
  refine ⟨fun u => ?_, fun u => ?_, by rw [h4]; exact h.nodup.erase t, by rw [h1, h3]; rfl,
    by rw [h2, h4, hro]; simp, fun _ => h2⟩
  · by_cases hu : u = t
    · subst hu; rw [h3, h5]; simp
    · rw [h3, h6 u hu]
      constructor
      · intro e; cases e; exact absurd rfl hu
      · intro e; have := (h.wown u).2 e; rw [hnw] at this; cases this
  · by_cases hu : u = t
    · subst hu; rw [h4, hro, h5]; simp
    · rw [h4, hro, h6 u hu]
      constructor
      · intro e; simp at e
      · intro e; have := (h.rown u).2 e; rw [hro] at this; simp at this; exact absurd this hu

/-- The holder of the write lock is alone. -/
theorem LockInv.writer_alone {s : State} (h : LockInv s) {t u : Tid} (ht : shareOf s t = some .W)
    (hu : shareOf s u ≠ none) : u = t := by
  have hown := (h.wown t).2 ht
  cases hm : shareOf s u with
  | none => exact absurd hm hu
  | some m =>
    cases m with
    | W => have := (h.wown u).2 hm; rw [hown] at this; cases this; rfl
    | R =>
      have hmem := (h.rown u).2 hm
      have hwl : s.word.wlock = true := by rw [h.wl, hown]; rfl
      have := h.noReaders (h.excl hwl)
      rw [this] at hmem; cases hmem

end NsyncVerif.MuC
