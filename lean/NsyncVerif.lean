-- Root of the NsyncVerif library: imports every model, proof and property module.
import NsyncVerif.Props.C01
import NsyncVerif.Props.C07
import NsyncVerif.Props.C07Audit
import NsyncVerif.Props.C12
import NsyncVerif.Props.C12Audit
import NsyncVerif.Props.C18
import NsyncVerif.Props.C18Audit
import NsyncVerif.Props.C15Arith
import NsyncVerif.Props.C16Buffer
import NsyncVerif.Props.C16BufferAudit
import NsyncVerif.Model.MuXDriver
import NsyncVerif.Model.TimeDriver
import NsyncVerif.Model.EmitDriver
import NsyncVerif.Model.FutexDriver
import NsyncVerif.Model.OnceDriver
