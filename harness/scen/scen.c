/* Scenario interpreter for the nsync harness.
   usage: vfh run <scenario-file> [key=value ...]      one execution, log on stdout
          vfh batch <batch-file> <outdir> [key=value ...]   many executions, forked, 16 workers
   A scenario is a few lines of text (see parse_scenario); a batch file is a sequence of
   scenarios separated by lines "---", each preceded by "exec key=value ..." lines giving the
   schedule seeds to run it under. */
#include "nsync_cpp.h"
#include "platform.h"
#include "compiler.h"
#include "cputype.h"
#include "nsync.h"
#include "dll.h"
#include "sem.h"
#include "wait_internal.h"
#include "common.h"
#include "atomic.h"
#undef malloc
#undef free
#undef clock_gettime
#undef syscall
#include <sys/wait.h>
#include <sys/stat.h>
#include <fcntl.h>
#include "../rt/vf.h"
/* the interpreter calls the real entry points; only calls made by nsync itself go through the
   --wrap wrappers of rt/wrap.c (and are logged as nested calls) */
void __real_nsync_mu_lock (nsync_mu *); void __real_nsync_mu_unlock (nsync_mu *); void __real_nsync_mu_rlock (nsync_mu *);
void __real_nsync_mu_runlock (nsync_mu *); int __real_nsync_mu_trylock (nsync_mu *); void __real_nsync_cv_signal (nsync_cv *);
void __real_nsync_cv_broadcast (nsync_cv *); void __real_nsync_note_notify (nsync_note);
int __real_nsync_cv_wait_with_deadline (nsync_cv *, nsync_mu *, nsync_time, nsync_note);
void __real_nsync_mu_wait (nsync_mu *, int (*) (const void *), const void *, int (*) (const void *, const void *));
int __real_nsync_wait_n (void *, void (*) (void *), void (*) (void *), nsync_time, int, struct nsync_waitable_s *[]);
#define nsync_mu_lock __real_nsync_mu_lock
#define nsync_mu_unlock __real_nsync_mu_unlock
#define nsync_mu_rlock __real_nsync_mu_rlock
#define nsync_mu_runlock __real_nsync_mu_runlock
#define nsync_mu_trylock __real_nsync_mu_trylock
#define nsync_cv_signal __real_nsync_cv_signal
#define nsync_cv_broadcast __real_nsync_cv_broadcast
#define nsync_note_notify __real_nsync_note_notify
#define nsync_cv_wait_with_deadline __real_nsync_cv_wait_with_deadline
#define nsync_mu_wait __real_nsync_mu_wait
#define nsync_wait_n __real_nsync_wait_n

extern void (*vf_lockann_hook) (void *mu, int acquired, int write);
extern int (*vf_victim_may_run_hook) (void);
extern int (*vf_lazy_release_hook) (void);
extern void (*vf_sem_sleep_hook) (int tid);
extern void (*vf_requeue_hook) (int tid);
void *vf_once_sync_base (void);
size_t vf_once_sync_stride (void);
void *vf_pool_mu_addr (void);

#define MAXOBJ 16
#define MAXOPS 800
#define START_NS 1000000000000ll

enum opc { OP_LOCK = 1, OP_UNLOCK, OP_RLOCK, OP_RUNLOCK, OP_TRYLOCK, OP_RTRYLOCK, OP_UNLOCK_IF, OP_RUNLOCK_IF,
	   OP_UNLOCK_NW, OP_WR, OP_RD, OP_INC, OP_DEC, OP_CVWAIT, OP_SIGNAL, OP_BROADCAST, OP_AWAIT, OP_MUWAIT,
	   OP_NOTE_NEW, OP_NOTIFY, OP_IS_NOTIFIED, OP_NOTE_WAIT, OP_NOTE_FREE, OP_NOTE_EXPIRY,
	   OP_AFTER_BLOCKED, OP_ADVANCE, OP_CTR_NEW, OP_CTR_ADD, OP_CTR_VALUE, OP_CTR_WAIT, OP_CTR_FREE, OP_ONCE, OP_WAITN,
	   OP_DBG_MU, OP_DBG_MUW, OP_DBG_CV, OP_DBG_CVW, OP_UNREF, OP_UNREF_HELD, OP_TRYLOCK_SPIN, OP_YIELD, OP_ASSERT_HELD, OP_RASSERT_HELD, OP_IS_READER,
	   OP_SEM_P, OP_SEM_PD, OP_SEM_V };

struct dl { int kind; int64_t off; };   /* 0 inf, 1 zero, 2 neg, 3 start+off, 4 raw sec/nsec */
struct op { int code; int a, b, c, e; struct dl d; int nobj; int objk[6]; int obji[6]; int64_t raw_sec; long raw_nsec; };
struct prog { int n; struct op ops[MAXOPS]; };

struct cond_arg { int *var; int val; int id; int kind; };

static nsync_mu *mus; static nsync_cv *cvs; static int *vars;
static nsync_note notes[MAXOBJ]; static nsync_counter ctrs[MAXOBJ]; static nsync_once *onces;
static nsync_semaphore *sems;
static int nmu, ncv, nvar, nonce, nsem;
static struct cond_arg conds[MAXOBJ]; static int cond_eq[MAXOBJ]; static int cond_dbg[MAXOBJ]; static int nconds;
static int var_mu[MAXOBJ]; /* which mutex protects variable i (for oracles), -1 none */
static struct prog progs[16]; static int nprogs;
static int sem_binary;

/* ---- oracles state */
static int api_w[MAXOBJ], api_r[MAXOBJ];    /* API-level shadow occupancy */
static int ann_w[MAXOBJ], ann_r[MAXOBJ];    /* nsync's own annotations */
static int try_ok[16][MAXOBJ];
static int in_try[16];
static int once_runs[256], once_done[256];
static int sleeps_in_lock[16]; static int in_lock_call[16]; static int in_lock_mu[16];
/* C12: posts made and waits that succeeded on each test semaphore (conservation oracle at the end of an execution) */
static int sem_posts_made[MAXOBJ]; static int sem_waits_ok[MAXOBJ]; static int sem_used[MAXOBJ];
/* C05 / C15: fresh reader acquisitions that began AND succeeded while fiber k's nsync_mu_wait had already passed its deadline (the
   timed-out waiter must keep new readers out: MU_WRITER_WAITING) */
static int64_t muwait_dl[16]; static int muwait_mu[16]; static int admitted_past[16];
static int expect_stuck_ok;
/* C10: history of the completed nsync_counter_add / nsync_counter_value calls per counter (invocation and response
   times in scheduler steps), checked for linearizability at the end of the execution */
struct chist { int ctr; int kind; int delta; uint32_t res; long t0, t1; };
static struct chist chist[64]; static int nchist; static uint32_t ctr_init[MAXOBJ];
static void chist_add (int ctr, int kind, int delta, uint32_t res, long t0, long t1) {
	if (nchist < 64) { struct chist *h = &chist[nchist++]; h->ctr = ctr; h->kind = kind; h->delta = delta; h->res = res; h->t0 = t0; h->t1 = t1; }
}
/* depth-first search for a linearization of the operations of counter c: `done` is the set already placed, v the value */
static int chist_search (int c, unsigned long done, uint32_t v, int left) {
	int i; int j;
	if (left == 0) { return (1); }
	for (i = 0; i != nchist; i++) {
		if (chist[i].ctr != c || (done >> i & 1)) { continue; }
		/* i may come next only if no other pending operation responded before i was invoked */
		for (j = 0; j != nchist; j++) { if (j != i && chist[j].ctr == c && !(done >> j & 1) && chist[j].t1 < chist[i].t0) { break; } }
		if (j != nchist) { continue; }
		if (chist[i].kind == 0) { uint32_t nv = v + (uint32_t) chist[i].delta; if (chist[i].res == nv && chist_search (c, done | 1ul << i, nv, left - 1)) { return (1); } }
		else { if (chist[i].res == v && chist_search (c, done | 1ul << i, v, left - 1)) { return (1); } }
	}
	return (0);
}
static void chist_check (void) {
	int c;
	for (c = 0; c != MAXOBJ; c++) {
		int k = 0; int i;
		for (i = 0; i != nchist; i++) { if (chist[i].ctr == c) { k++; } }
		if (k != 0 && k <= 14 && !chist_search (c, 0, ctr_init[c], k)) {
			vf_violation ("ctr-linearizable", "the values returned by nsync_counter_add / nsync_counter_value on counter k%d (%d calls) are not those of any sequential order consistent with the calls' real-time order", c, k);
		}
	}
}
static int in_cv_wait_mu[16]; /* 1 + index of the mutex of the nsync_cv_wait call a fiber is inside, else 0 */
static int waiting_mu[16]; static struct cond_arg *waiting_cond[16]; /* the condition of the nsync_mu_wait call a fiber is inside (C06 quiescence oracle) */

static int nfibers_total;
/* C14: how often a fiber goes to sleep inside ONE nsync_mu_lock / nsync_mu_rlock call */
static void sem_sleep (int tid) { if (tid >= 0 && tid < 16 && in_lock_call[tid]) { sleeps_in_lock[tid]++; } }
/* … and how often it queues itself again inside one call (= how often it lost the race: with an early wake-up it
   does not even reach the semaphore) */
static int requeues_in_lock[16];
static void requeue (int tid) { if (tid >= 0 && tid < 16 && in_lock_call[tid]) { requeues_in_lock[tid]++; } }
/* adversarial scheduling: the victim (fiber 0) may run only while mu0 is held by somebody */
static int victim_may_run (void) { uint32_t w = *(volatile uint32_t *) &mus[0]; return ((w & (MU_WLOCK | MU_RLOCK_FIELD)) != 0); }
/* strategy 6: the late looker (fiber 1) is let go once mu0 carries MU_LONG_WAIT */
static int lazy_release (void) { uint32_t w = *(volatile uint32_t *) &mus[0]; return ((w & MU_LONG_WAIT) != 0); }
static void check_starved (int me, const char *api) {
	if (sleeps_in_lock[me] > LONG_WAIT_THRESHOLD + nfibers_total + 6) {
		vf_violation ("starved", "%s: the caller was sent back to sleep %d times in one call (more than LONG_WAIT_THRESHOLD + number of threads)", api, sleeps_in_lock[me]);
	} else if (requeues_in_lock[me] > LONG_WAIT_THRESHOLD + nfibers_total + 6) {
		vf_violation ("starved", "%s: the caller lost the race and queued itself again %d times in one call (more than LONG_WAIT_THRESHOLD + number of threads)", api, requeues_in_lock[me]);
	}
}
static int mu_index (void *mu) { int i; for (i = 0; i != nmu; i++) { if ((void *) &mus[i] == mu) { return (i); } } return (-1); }
static void lockann (void *mu, int acquired, int write) {
	int m = mu_index (mu);
	if (m < 0) { return; }
	if (acquired) {
		if (write) { if (ann_w[m] != 0 || ann_r[m] != 0) { vf_violation ("exclusion-ann", "mu%d acquired W with w=%d r=%d", m, ann_w[m], ann_r[m]); } ann_w[m]++; }
		else { if (ann_w[m] != 0) { vf_violation ("exclusion-ann", "mu%d acquired R with w=%d", m, ann_w[m]); } ann_r[m]++; }
	} else {
		if (write) { ann_w[m]--; } else { ann_r[m]--; }
		if (ann_w[m] < 0 || ann_r[m] < 0) { vf_violation ("exclusion-ann", "mu%d released more than held", m); }
	}
}
static void shadow_acq (int m, int write) {
	if (write) { if (api_w[m] != 0 || api_r[m] != 0) { vf_violation ("exclusion", "mu%d: writer admitted with writers=%d readers=%d", m, api_w[m], api_r[m]); } api_w[m]++; }
	else { if (api_w[m] != 0) { vf_violation ("exclusion", "mu%d: reader admitted with writers=%d", m, api_w[m]); } api_r[m]++; }
}
static void shadow_rel (int m, int write) { if (write) { api_w[m]--; } else { api_r[m]--; } }

/* a condition instrumented with a debug trace (C16): it calls nsync_mu_debug_state_and_waiters on the mutex it is
   evaluated under.  The call is logged under the thread id 20 + fiber, i.e. shown to the acceptors as an observer
   call of another thread (the mutex models have no nested calls); what only the implementation can show is the
   self-deadlock when the library evaluates conditions with its queue spinlock held. */
static void cond_debug_trace (const struct cond_arg *c, int m) {
	static char bufs[16][96]; int me = vf_self ();
	if (m < 0 || me < 0 || me >= 16 || !cond_dbg[c->id]) { return; }
	vf_log_alias (20 + me);
	vf_log ("call nsync_mu_debug_state_and_waiters mu%d %d", m, (int) sizeof (bufs[0]));
	nsync_mu_debug_state_and_waiters (&mus[m], bufs[me], (int) sizeof (bufs[0]));
	vf_log ("ret nsync_mu_debug_state_and_waiters -");
	vf_log_alias (0);
}
static int cond_fn_eq (const void *v) {
	const struct cond_arg *c = (const struct cond_arg *) v; int r = (*c->var == c->val);
	int m = var_mu[c->var - vars];
	cond_debug_trace (c, m);
	vf_log ("cond eq c%d %d", c->id, r);
	if (m >= 0 && api_w[m] != 0) { vf_violation ("cond-under-lock", "condition c%d evaluated while another thread is in a write section of mu%d", c->id, m); }
	return (r);
}
static int cond_fn_ge (const void *v) {
	const struct cond_arg *c = (const struct cond_arg *) v; int r = (*c->var >= c->val);
	int m = var_mu[c->var - vars];
	cond_debug_trace (c, m);
	vf_log ("cond ge c%d %d", c->id, r);
	if (m >= 0 && api_w[m] != 0) { vf_violation ("cond-under-lock", "condition c%d evaluated while another thread is in a write section of mu%d", c->id, m); }
	return (r);
}
static int cond_arg_eq (const void *a, const void *b) {
	const struct cond_arg *x = (const struct cond_arg *) a; const struct cond_arg *y = (const struct cond_arg *) b;
	return (x->var == y->var && x->val == y->val);
}
/* the once function takes a while: several scheduling points between its start and its end */
static int once_cb_len = 4; /* scheduling points inside the once function (header line `oncecb <n>`): a long-running initialiser lets the clock pass several of the waiters' polling deadlines */
static int once_nest_to[256], once_nest_var[256]; static int once_nest_set;  /* header `oncenest o<i> o<j> <v>`: the function of once i calls run_once variant v on once j */
static void once_farg (void *a);
static void once_nested (int i) {
	if (once_nest_set && once_nest_to[i] > 0) {
		int j = once_nest_to[i]; int v = once_nest_var[i];
		vf_log ("cb nested run_once once%d variant %d", j, v);
		if (v == 1) { nsync_run_once_arg (&onces[j], &once_farg, (void *) (intptr_t) j); } else { nsync_run_once_arg_spin (&onces[j], &once_farg, (void *) (intptr_t) j); }
		if (!once_done[j]) { vf_violation ("once-early-return", "nested run_once returned before the function completed"); }
		if (once_runs[j] != 1) { vf_violation ("once-count", "once function ran %d times", once_runs[j]); }
	}
}
static void once_f0 (void) { int q; vf_log ("cb f start"); once_runs[0]++; for (q = 0; q != once_cb_len; q++) { vf_sched_note (); if (q == once_cb_len / 2) { once_nested (0); } } once_done[0] = 1; vf_log ("cb f end"); }
static void once_farg (void *a) { int i = (int) (intptr_t) a; int q; vf_log ("cb farg start"); once_runs[i]++; for (q = 0; q != once_cb_len; q++) { vf_sched_note (); if (q == once_cb_len / 2) { once_nested (i); } } once_done[i] = 1; vf_log ("cb farg end"); }

static nsync_time mk_deadline (struct op *o, char *txt, size_t n) {
	nsync_time t;
	switch (o->d.kind) {
	case 0: snprintf (txt, n, "inf"); return (nsync_time_no_deadline);
	case 1: snprintf (txt, n, "0"); return (nsync_time_zero);
	case 2: snprintf (txt, n, "-1000000000"); return (nsync_time_s_ns (-1, 0));
	case 4: snprintf (txt, n, "raw:%lld:%ld", (long long) o->raw_sec, o->raw_nsec); memset (&t, 0, sizeof (t)); t.tv_sec = o->raw_sec; t.tv_nsec = o->raw_nsec; return (t);
	default: {
		int64_t ns = START_NS + o->d.off;
		snprintf (txt, n, "%lld", (long long) ns);
		return (nsync_time_s_ns (ns / 1000000000, (unsigned) (ns % 1000000000)));
	}
	}
}
static int64_t dl_ns (struct op *o) {
	switch (o->d.kind) { case 0: return (INT64_MAX); case 1: return (0); case 2: return (-1000000000ll); case 4: return (o->raw_sec < 0 ? -1 : INT64_MAX - 1); default: return (START_NS + o->d.off); }
}
static int note_flag (nsync_note n) { return ((int) *(volatile uint32_t *) &n->notified); }

static void check_wait_result (const char *api, int res, struct op *o, nsync_note cancel) {
	if (res == ETIMEDOUT && dl_ns (o) > vf_now ()) { vf_violation ("early-timeout", "%s returned ETIMEDOUT at %lld before deadline %lld", api, (long long) vf_now (), (long long) dl_ns (o)); }
	if (res == ECANCELED && (cancel == NULL || !note_flag (cancel))) { vf_violation ("bad-cancel", "%s returned ECANCELED but note not notified", api); }
	if (res != 0 && res != ETIMEDOUT && res != ECANCELED) { vf_violation ("bad-result", "%s returned %d", api, res); }
}

/* Digest of the note forest (plain fields protected by the notes' mutexes), logged after every note
   API return: fibers switch only at atomic operations, so the snapshot is a consistent memory state
   that the Note model must reproduce exactly. */
static int cv_wakes[MAXOBJ], cv_done[MAXOBJ]; /* signal / broadcast calls started / finished on each cv */
static int64_t exp_min[MAXOBJ];   /* min of the deadlines from the note to its root, as given at creation */
static int nnotes_seen;
static nsync_note all_notes[64];
static void remember_note (nsync_note n) { int i; if (n == NULL) { return; } for (i = 0; i != nnotes_seen; i++) { if (all_notes[i] == n) { return; } } if (nnotes_seen < 64) { all_notes[nnotes_seen++] = n; } }
static void forget_note (nsync_note n) { int i; for (i = 0; i != nnotes_seen; i++) { if (all_notes[i] == n) { all_notes[i] = all_notes[--nnotes_seen]; return; } } }
static void dump_notes (void) {
	int i;
	/* with plain-access scheduling points another fiber may be in the MIDDLE of a list manipulation under the note's
	   mutex: the unlocked walk below would read an inconsistent list (it once looped for ever): no digest then */
	if (vf_plain_sched () != 0) { return; }
	for (i = 0; i != nnotes_seen; i++) {
		nsync_note n = all_notes[i]; char ch[256]; int cn = 0; int nw = 0; nsync_dll_element_ *p;
		ch[0] = 0;
		for (p = nsync_dll_first_ (n->children); p != NULL; p = nsync_dll_next_ (n->children, p)) {
			cn += snprintf (ch + cn, sizeof (ch) - cn, "%s%s", cn ? "," : "", vf_name_of (p->container) ? vf_name_of (p->container) : "?");
			if (cn > 200) { break; }
		}
		for (p = nsync_dll_first_ (n->waiters); p != NULL && nw < 1000; p = nsync_dll_next_ (n->waiters, p)) { nw++; }
		vf_log_env ("state %s parent=%s children=[%s] waiters=%d disc=%u notified=%u", vf_name_of (n), n->parent ? vf_name_of (n->parent) : "-", ch, nw,
			    (unsigned) n->disconnecting, (unsigned) *(volatile uint32_t *) &n->notified);
	}
}

static struct nsync_waitable_s wtab[16][6]; static struct nsync_waitable_s *wptr[16][6];

static void run_prog (void *arg) {
	struct prog *p = (struct prog *) arg; int me = vf_self (); int i;
	char dt[48];
	for (i = 0; i != p->n; i++) {
		struct op *o = &p->ops[i];
		switch (o->code) {
		case OP_LOCK: vf_log ("call nsync_mu_lock mu%d", o->a); in_lock_call[me] = 1; in_lock_mu[me] = o->a; sleeps_in_lock[me] = 0; requeues_in_lock[me] = 0; vf_api_enter (); nsync_mu_lock (&mus[o->a]); vf_api_leave (); in_lock_call[me] = 0; check_starved (me, "nsync_mu_lock"); shadow_acq (o->a, 1); vf_log ("ret nsync_mu_lock -"); break;
		case OP_RLOCK: { int64_t began = vf_now (); int k; int retry0[16];
			for (k = 0; k != 16; k++) { retry0[k] = vf_retry_loads (k); } /* how far each timed-out waiter was in its re-acquisition spin when this call began */
			vf_log ("call nsync_mu_rlock mu%d", o->a); in_lock_call[me] = 1; in_lock_mu[me] = o->a; sleeps_in_lock[me] = 0; requeues_in_lock[me] = 0; vf_api_enter (); nsync_mu_rlock (&mus[o->a]); vf_api_leave (); in_lock_call[me] = 0; check_starved (me, "nsync_mu_rlock"); shadow_acq (o->a, 0); vf_log ("ret nsync_mu_rlock -");
			for (k = 0; k != 16; k++) { if (k != me && muwait_dl[k] != 0 && muwait_mu[k] == o->a && began > muwait_dl[k] && retry0[k] >= 6) { admitted_past[k]++; } }
			break; }
		case OP_UNLOCK: vf_log ("call nsync_mu_unlock mu%d", o->a); shadow_rel (o->a, 1); vf_api_enter (); nsync_mu_unlock (&mus[o->a]); vf_api_leave (); vf_log ("ret nsync_mu_unlock -"); break;
		case OP_UNLOCK_NW: vf_log ("call nsync_mu_unlock_without_wakeup mu%d", o->a); shadow_rel (o->a, 1); vf_api_enter (); nsync_mu_unlock_without_wakeup (&mus[o->a]); vf_api_leave (); vf_log ("ret nsync_mu_unlock_without_wakeup -"); break;
		case OP_RUNLOCK: vf_log ("call nsync_mu_runlock mu%d", o->a); shadow_rel (o->a, 0); vf_api_enter (); nsync_mu_runlock (&mus[o->a]); vf_api_leave (); vf_log ("ret nsync_mu_runlock -"); break;
		case OP_TRYLOCK: { int r; vf_log ("call nsync_mu_trylock mu%d", o->a); in_try[me] = 1; vf_api_enter (); r = nsync_mu_trylock (&mus[o->a]); vf_api_leave (); in_try[me] = 0; if (r) { shadow_acq (o->a, 1); } try_ok[me][o->a] = r; vf_log ("ret nsync_mu_trylock %d", r); break; }
		case OP_RTRYLOCK: { int r; vf_log ("call nsync_mu_rtrylock mu%d", o->a); in_try[me] = 1; vf_api_enter (); r = nsync_mu_rtrylock (&mus[o->a]); vf_api_leave (); in_try[me] = 0; if (r) { shadow_acq (o->a, 0); } try_ok[me][o->a] = r; vf_log ("ret nsync_mu_rtrylock %d", r); break; }
		case OP_UNLOCK_IF: if (try_ok[me][o->a]) { vf_log ("call nsync_mu_unlock mu%d", o->a); shadow_rel (o->a, 1); vf_api_enter (); nsync_mu_unlock (&mus[o->a]); vf_api_leave (); vf_log ("ret nsync_mu_unlock -"); } break;
		case OP_RUNLOCK_IF: if (try_ok[me][o->a]) { vf_log ("call nsync_mu_runlock mu%d", o->a); shadow_rel (o->a, 0); vf_api_enter (); nsync_mu_runlock (&mus[o->a]); vf_api_leave (); vf_log ("ret nsync_mu_runlock -"); } break;
		case OP_ASSERT_HELD: vf_log ("call nsync_mu_assert_held mu%d", o->a); nsync_mu_assert_held (&mus[o->a]); vf_log ("ret nsync_mu_assert_held -"); break;
		case OP_RASSERT_HELD: vf_log ("call nsync_mu_rassert_held mu%d", o->a); nsync_mu_rassert_held (&mus[o->a]); vf_log ("ret nsync_mu_rassert_held -"); break;
		case OP_IS_READER: { int r; vf_log ("call nsync_mu_is_reader mu%d", o->a); r = nsync_mu_is_reader (&mus[o->a]); vf_log ("ret nsync_mu_is_reader %d", r); break; }
		case OP_WR: vars[o->a] = o->b; vf_log ("data w x%d %d", o->a, o->b); break;
		case OP_INC: vars[o->a]++; vf_log ("data w x%d %d", o->a, vars[o->a]); break;
		case OP_DEC: vars[o->a]--; vf_log ("data w x%d %d", o->a, vars[o->a]); break;
		case OP_RD: vf_log ("data r x%d %d", o->a, vars[o->a]); break;
		case OP_YIELD: vf_sched_note (); break;
		case OP_ADVANCE: vf_advance ((int64_t) o->a); break;
		case OP_AFTER_BLOCKED: vf_wait_fiber_blocked (o->a + (o->b ? 1000 : 0)); break; /* deterministic set-up order: go on once fiber a sleeps (or is done) */
		case OP_CVWAIT: case OP_AWAIT: {
			int res = 0; nsync_time t = mk_deadline (o, dt, sizeof (dt));
			nsync_note cn = o->e >= 0 ? notes[o->e] : NULL;
			int wmode = api_w[o->b] != 0; /* the caller holds it: writer iff shadow says a writer holds */
			while (o->code == OP_CVWAIT ? res == 0 : (res == 0 && vars[o->c] != o->nobj)) {
				vf_log ("call nsync_cv_wait_with_deadline cv%d mu%d %s %s", o->a, o->b, dt, cn ? vf_name_of (cn) : "-");
				shadow_rel (o->b, wmode);
				if (me >= 0 && me < 16) { in_cv_wait_mu[me] = 1 + o->b; }
				vf_api_enter (); res = nsync_cv_wait_with_deadline (&cvs[o->a], &mus[o->b], t, cn); vf_api_leave ();
				if (me >= 0 && me < 16) { in_cv_wait_mu[me] = 0; }
				shadow_acq (o->b, wmode);
				vf_log ("ret nsync_cv_wait_with_deadline %s", res == 0 ? "0" : res == ETIMEDOUT ? "ETIMEDOUT" : res == ECANCELED ? "ECANCELED" : "?");
				check_wait_result ("nsync_cv_wait_with_deadline", res, o, cn);
				if (res != 0 && vf_my_waiter_unlinked_by_waker ()) {
					vf_violation ("swallowed-wakeup", "nsync_cv_wait_with_deadline returned %s although a signal/broadcast had unlinked this waiter (a consumed wake-up must be reported as 0)", res == ETIMEDOUT ? "ETIMEDOUT" : "ECANCELED");
				}
				if (o->code == OP_CVWAIT) { break; }
			}
			break; }
		case OP_SIGNAL: cv_wakes[o->a]++; vf_log ("call nsync_cv_signal cv%d", o->a); vf_api_enter (); nsync_cv_signal (&cvs[o->a]); vf_api_leave (); cv_done[o->a]++; vf_log ("ret nsync_cv_signal -"); break;
		case OP_BROADCAST: cv_wakes[o->a]++; vf_log ("call nsync_cv_broadcast cv%d", o->a); vf_api_enter (); nsync_cv_broadcast (&cvs[o->a]); vf_api_leave (); cv_done[o->a]++; vf_log ("ret nsync_cv_broadcast -"); break;
		case OP_MUWAIT: {
			int res; nsync_time t = mk_deadline (o, dt, sizeof (dt)); struct cond_arg *c = o->b >= 0 ? &conds[o->b] : NULL;
			nsync_note cn = o->e >= 0 ? notes[o->e] : NULL;
			int wmode = api_w[o->a] != 0;
			vf_log ("call nsync_mu_wait_with_deadline mu%d %s %s %s", o->a, c ? (c->kind ? "ge" : "eq") : "-", dt, cn ? vf_name_of (cn) : "-");
			if (c) { vf_log ("condarg c%d x%d %d eq=%d", c->id, (int) (c->var - vars), c->val, cond_eq[o->b]); }
			shadow_rel (o->a, wmode);
			vf_api_enter ();
			if (me >= 0 && me < 16) { waiting_cond[me] = c; waiting_mu[me] = o->a; admitted_past[me] = 0; vf_retry_loads_reset (); muwait_mu[me] = o->a; muwait_dl[me] = (o->d.kind == 3 && cn == NULL) ? dl_ns (o) : 0; }
			res = nsync_mu_wait_with_deadline (&mus[o->a], c ? (c->kind ? &cond_fn_ge : &cond_fn_eq) : NULL, c, c && cond_eq[o->b] ? &cond_arg_eq : NULL, t, cn);
			if (me >= 0 && me < 16) { waiting_cond[me] = NULL; muwait_dl[me] = 0; }
			vf_api_leave ();
			shadow_acq (o->a, wmode);
			if (me >= 0 && me < 16 && res == ETIMEDOUT && admitted_past[me] > 40) {
				vf_violation ("timed-starved", "nsync_mu_wait_with_deadline: %d nsync_mu_rlock calls that began after the timed-out caller had gone round its re-acquisition loop three times were admitted before it got the mutex back (it must keep new readers out: MU_WRITER_WAITING)", admitted_past[me]);
			}
			vf_log ("ret nsync_mu_wait_with_deadline %s", res == 0 ? "0" : res == ETIMEDOUT ? "ETIMEDOUT" : res == ECANCELED ? "ECANCELED" : "?");
			check_wait_result ("nsync_mu_wait_with_deadline", res, o, cn);
			if (c) {
				int truth = c->kind ? (*c->var >= c->val) : (*c->var == c->val);
				if ((res == 0) != (truth != 0)) { vf_violation ("muwait-result", "nsync_mu_wait_with_deadline returned %d but condition is %d", res, truth); }
			}
			break; }
		case OP_NOTE_NEW: {
			nsync_time t = mk_deadline (o, dt, sizeof (dt)); nsync_note par = o->b >= 0 ? notes[o->b] : NULL;
			vf_log ("call nsync_note_new %s %s", par ? vf_name_of (par) : "-", dt);
			exp_min[o->a] = dl_ns (o); if (par != NULL && exp_min[o->b] < exp_min[o->a]) { exp_min[o->a] = exp_min[o->b]; } /* par == NULL also when the parent's creation failed (C19 scenarios): the note is then a root */
			vf_api_enter (); notes[o->a] = nsync_note_new (par, t); vf_api_leave ();
			vf_log ("ret nsync_note_new %s", notes[o->a] ? vf_name_of (notes[o->a]) : "NULL");
			remember_note (notes[o->a]); dump_notes ();
			break; }
		case OP_NOTIFY: if (notes[o->a]) { vf_log ("call nsync_note_notify %s", vf_name_of (notes[o->a])); vf_api_enter (); nsync_note_notify (notes[o->a]); vf_api_leave (); vf_log ("ret nsync_note_notify -"); dump_notes (); if (!note_flag (notes[o->a])) { vf_violation ("notify-post", "note not notified after nsync_note_notify returned"); } } break;
		case OP_IS_NOTIFIED: if (notes[o->a]) { int r; vf_log ("call nsync_note_is_notified %s", vf_name_of (notes[o->a])); vf_api_enter (); r = nsync_note_is_notified (notes[o->a]); vf_api_leave (); vf_log ("ret nsync_note_is_notified %d", r); dump_notes (); } break;
		case OP_NOTE_WAIT: if (notes[o->a]) { int r; nsync_time t = mk_deadline (o, dt, sizeof (dt)); vf_log ("call nsync_note_wait %s %s", vf_name_of (notes[o->a]), dt); vf_api_enter (); r = nsync_note_wait (notes[o->a], t); vf_api_leave (); vf_log ("ret nsync_note_wait %d", r); dump_notes ();
				if (r && !note_flag (notes[o->a])) { vf_violation ("note-wait", "nsync_note_wait returned true but note is not notified"); }
				if (!r && dl_ns (o) > vf_now ()) { vf_violation ("early-timeout", "nsync_note_wait timed out early"); } } break;
		case OP_NOTE_FREE: if (notes[o->a]) { nsync_note n = notes[o->a]; vf_log ("call nsync_note_free %s", vf_name_of (n)); notes[o->a] = NULL; forget_note (n); vf_api_enter (); nsync_note_free (n); vf_api_leave (); vf_log ("ret nsync_note_free -"); dump_notes (); } break;
		case OP_NOTE_EXPIRY: if (notes[o->a]) { nsync_time t; vf_log ("call nsync_note_expiry %s", vf_name_of (notes[o->a])); t = nsync_note_expiry (notes[o->a]); vf_log ("ret nsync_note_expiry %lld:%ld", (long long) NSYNC_TIME_SEC (t), (long) NSYNC_TIME_NSEC (t));
				{ int64_t got = nsync_time_cmp (t, nsync_time_no_deadline) == 0 ? INT64_MAX : (int64_t) NSYNC_TIME_SEC (t) * 1000000000 + NSYNC_TIME_NSEC (t);
				  if (got != exp_min[o->a]) { vf_violation ("expiry-min", "nsync_note_expiry = %lld but the minimum of the deadlines from the note to its root is %lld", (long long) got, (long long) exp_min[o->a]); } } } break;
		case OP_CTR_NEW: ctr_init[o->a] = (uint32_t) o->b; vf_log ("call nsync_counter_new %u", (unsigned) o->b); vf_api_enter (); ctrs[o->a] = nsync_counter_new ((uint32_t) o->b); vf_api_leave (); vf_log ("ret nsync_counter_new %s", ctrs[o->a] ? vf_name_of (ctrs[o->a]) : "NULL"); break;
		case OP_CTR_ADD: if (ctrs[o->a]) { uint32_t r; long t0 = vf_steps (); vf_log ("call nsync_counter_add %s %d", vf_name_of (ctrs[o->a]), o->b); vf_api_enter (); r = nsync_counter_add (ctrs[o->a], o->b); vf_api_leave (); vf_log ("ret nsync_counter_add %u", r); chist_add (o->a, 0, o->b, r, t0, vf_steps ()); } break;
		case OP_CTR_VALUE: if (ctrs[o->a]) { uint32_t r; long t0 = vf_steps (); vf_log ("call nsync_counter_value %s", vf_name_of (ctrs[o->a])); vf_api_enter (); r = nsync_counter_value (ctrs[o->a]); vf_api_leave (); vf_log ("ret nsync_counter_value %u", r); chist_add (o->a, 1, 0, r, t0, vf_steps ()); } break;
		case OP_CTR_WAIT: if (ctrs[o->a]) { uint32_t r; nsync_time t = mk_deadline (o, dt, sizeof (dt)); vf_log ("call nsync_counter_wait %s %s", vf_name_of (ctrs[o->a]), dt); vf_api_enter (); r = nsync_counter_wait (ctrs[o->a], t); vf_api_leave (); vf_log ("ret nsync_counter_wait %u", r);
				if (r == 0) { int q; for (q = 0; q + 1 < nvar; q++) { vf_log ("data r x%d %d", q, vars[q]); } }
				if (r != 0 && dl_ns (o) > vf_now ()) { vf_violation ("early-timeout", "nsync_counter_wait returned non-zero before its deadline"); }
				if (r == 0 && vf_counter_peek (ctrs[o->a]) != 0) { vf_violation ("ctr-wait-zero", "nsync_counter_wait returned 0 although the counter holds %u (a counter never leaves zero again: API contract)", vf_counter_peek (ctrs[o->a])); } } break;
		case OP_CTR_FREE: if (ctrs[o->a]) { nsync_counter c = ctrs[o->a]; vf_log ("call nsync_counter_free %s", vf_name_of (c)); ctrs[o->a] = NULL; vf_api_enter (); nsync_counter_free (c); vf_api_leave (); vf_log ("ret nsync_counter_free -"); } break;
		case OP_ONCE: {
			static const char *nm[] = { "nsync_run_once", "nsync_run_once_arg", "nsync_run_once_spin", "nsync_run_once_arg_spin" };
			vf_log ("call %s once%d", nm[o->b], o->a);
			vf_api_enter ();
			switch (o->b) {
			case 0: nsync_run_once (&onces[o->a], &once_f0); break;
			case 1: nsync_run_once_arg (&onces[o->a], &once_farg, (void *) (intptr_t) o->a); break;
			case 2: nsync_run_once_spin (&onces[o->a], &once_f0); break;
			default: nsync_run_once_arg_spin (&onces[o->a], &once_farg, (void *) (intptr_t) o->a); break;
			}
			vf_api_leave ();
			vf_log ("ret %s -", nm[o->b]);
			{ int oi = (o->b == 0 || o->b == 2) ? 0 : o->a;
			  if (!once_done[oi]) { vf_violation ("once-early-return", "run_once returned before the function completed"); }
			  if (once_runs[oi] != 1) { vf_violation ("once-count", "once function ran %d times", once_runs[oi]); } }
			break; }
		case OP_WAITN: {
			int k; int r; nsync_time t = mk_deadline (o, dt, sizeof (dt)); char desc[160]; int dn = 0;
			int wmode = o->a >= 0 ? (api_w[o->a] != 0) : 0;
			int wakes0[8]; int ready0 = -1; /* cv wake-up calls finished so far; first object already ready now */
			/* `awaitn`: Mesa loop around the call, `while (x != v) wait_n (...)`, left on a timeout */
			if (o->c >= 0 && vars[o->c] == o->e) { break; }
			awaitn_again: dn = 0; ready0 = -1;
			for (k = 0; k != o->nobj; k++) {
				wakes0[k & 7] = o->objk[k] == 0 ? cv_done[o->obji[k]] : 0;
				if (ready0 < 0 && ((o->objk[k] == 1 && note_flag (notes[o->obji[k]])) || (o->objk[k] == 2 && vf_counter_peek (ctrs[o->obji[k]]) == 0))) { ready0 = k; }
				switch (o->objk[k]) {
				case 0: wtab[me][k].v = &cvs[o->obji[k]]; wtab[me][k].funcs = &nsync_cv_waitable_funcs; dn += snprintf (desc + dn, sizeof (desc) - dn, " cv%d", o->obji[k]); break;
				case 1: wtab[me][k].v = notes[o->obji[k]]; wtab[me][k].funcs = &nsync_note_waitable_funcs; dn += snprintf (desc + dn, sizeof (desc) - dn, " %s", vf_name_of (notes[o->obji[k]])); break;
				default: wtab[me][k].v = ctrs[o->obji[k]]; wtab[me][k].funcs = &nsync_counter_waitable_funcs; dn += snprintf (desc + dn, sizeof (desc) - dn, " %s", vf_name_of (ctrs[o->obji[k]])); break;
				}
				wptr[me][k] = &wtab[me][k];
			}
			desc[dn] = 0;
			vf_log ("call nsync_wait_n %s %s %d%s", o->a >= 0 ? vf_name_of (&mus[o->a]) : "-", dt, o->nobj, desc);
			if (o->a >= 0) { shadow_rel (o->a, wmode); }
			vf_api_enter ();
			r = nsync_wait_n (o->a >= 0 ? &mus[o->a] : NULL, (void (*) (void *)) (wmode || o->a < 0 ? &nsync_mu_lock : &nsync_mu_rlock),
					  (void (*) (void *)) (wmode || o->a < 0 ? &nsync_mu_unlock : &nsync_mu_runlock), t, o->nobj, wptr[me]);
			vf_api_leave ();
			if (o->a >= 0) { shadow_acq (o->a, wmode); }
			vf_log ("ret nsync_wait_n %d", r);
			if (r == o->nobj && dl_ns (o) > vf_now ()) { vf_violation ("early-timeout", "nsync_wait_n returned count before its deadline"); }
			if (r < o->nobj) {
				if (o->objk[r] == 1 && !note_flag (notes[o->obji[r]])) { vf_violation ("waitn-ready", "nsync_wait_n reported an un-notified note as ready"); }
				if (o->objk[r] == 2 && vf_counter_peek (ctrs[o->obji[r]]) != 0) { vf_violation ("waitn-ready", "nsync_wait_n reported a non-zero counter as ready"); }
				if (o->objk[r] == 0 && cv_wakes[o->obji[r]] == wakes0[r & 7]) { vf_violation ("waitn-ready", "nsync_wait_n reported a condition variable as ready although every signal / broadcast on it so far had returned before the call began"); }
			} else if (ready0 >= 0) { vf_violation ("waitn-missed", "nsync_wait_n returned count although object %d was ready when the call began", ready0); }
			if (o->c >= 0 && r < o->nobj && vars[o->c] != o->e && vf_violation_text () == NULL) { goto awaitn_again; }
			break; }
		case OP_DBG_MU: case OP_DBG_MUW: case OP_DBG_CV: case OP_DBG_CVW: {
			static char areas[16][64 + 256 + 64]; char *area = areas[me]; char *buf = area + 64; /* one buffer per fiber: the calls interleave */ int n = o->b; int k; int bad = 0; const char *api;
			memset (area, 0xA5, sizeof (areas[0]));
			api = o->code == OP_DBG_MU ? "nsync_mu_debug_state" : o->code == OP_DBG_MUW ? "nsync_mu_debug_state_and_waiters" : o->code == OP_DBG_CV ? "nsync_cv_debug_state" : "nsync_cv_debug_state_and_waiters";
			vf_log ("call %s %s%d %d", api, o->code <= OP_DBG_MUW ? "mu" : "cv", o->a, n);
			vf_api_enter ();
			if (o->code == OP_DBG_MU) { nsync_mu_debug_state (&mus[o->a], buf, n); }
			else if (o->code == OP_DBG_MUW) { nsync_mu_debug_state_and_waiters (&mus[o->a], buf, n); }
			else if (o->code == OP_DBG_CV) { nsync_cv_debug_state (&cvs[o->a], buf, n); }
			else { nsync_cv_debug_state_and_waiters (&cvs[o->a], buf, n); }
			vf_api_leave ();
			for (k = 0; k != 64; k++) { if ((unsigned char) area[k] != 0xA5) { bad = 1; } }
			for (k = 64 + (n > 0 ? n : 0); k != (int) sizeof (areas[0]); k++) { if ((unsigned char) area[k] != 0xA5) { bad = 1; } }
			if (bad) { vf_violation ("debug-buffer", "%s wrote outside buf[0..%d)", api, n); }
			if (n >= 1 && memchr (buf, 0, n) == NULL) { vf_violation ("debug-buffer", "%s result not NUL-terminated (n=%d)", api, n); }
			vf_log ("ret %s -", api);
			break; }
		case OP_TRYLOCK_SPIN: { /* poll nsync_mu_trylock until it succeeds (a thread that never blocks on the mutex) */
			int r = 0; int tries = 0;
			while (!r && tries++ < 400) {
				vf_log ("call nsync_mu_trylock mu%d", o->a); in_try[me] = 1; vf_api_enter (); r = nsync_mu_trylock (&mus[o->a]); vf_api_leave (); in_try[me] = 0;
				if (r) { shadow_acq (o->a, 1); } try_ok[me][o->a] = r; vf_log ("ret nsync_mu_trylock %d", r);
				if (!r) { vf_sched_note (); }
			}
			if (!r) { vf_log ("call nsync_mu_lock mu%d", o->a); vf_api_enter (); nsync_mu_lock (&mus[o->a]); vf_api_leave (); shadow_acq (o->a, 1); vf_log ("ret nsync_mu_lock -"); }
			break; }
		case OP_UNREF: case OP_UNREF_HELD: {
			int last;
			if (o->code == OP_UNREF) { vf_log ("call nsync_mu_lock mu%d", o->a); vf_api_enter (); nsync_mu_lock (&mus[o->a]); vf_api_leave (); shadow_acq (o->a, 1); vf_log ("ret nsync_mu_lock -"); }
			vars[o->b]--; last = (vars[o->b] == 0); vf_log ("data w x%d %d", o->b, vars[o->b]);
			vf_log ("call nsync_mu_unlock mu%d", o->a); shadow_rel (o->a, 1); vf_api_enter (); nsync_mu_unlock (&mus[o->a]); vf_api_leave (); vf_log ("ret nsync_mu_unlock -");
			if (last) { vf_log ("reclaim mu%d", o->a); vf_kill (&mus[o->a]); memset (&mus[o->a], 0xdd, sizeof (mus[o->a])); }
			break; }
		case OP_SEM_P: vf_log ("call nsync_mu_semaphore_p sem%d", 100 + o->a); sem_used[o->a] = 1; vf_api_enter (); nsync_mu_semaphore_p (&sems[o->a]); vf_api_leave (); sem_waits_ok[o->a]++; vf_log ("ret nsync_mu_semaphore_p -"); break;
		case OP_SEM_PD: { int r; nsync_time t = mk_deadline (o, dt, sizeof (dt)); vf_log ("call nsync_mu_semaphore_p_with_deadline sem%d %s", 100 + o->a, dt); sem_used[o->a] = 1; vf_api_enter (); r = nsync_mu_semaphore_p_with_deadline (&sems[o->a], t); vf_api_leave (); if (r == 0) { sem_waits_ok[o->a]++; } vf_log ("ret nsync_mu_semaphore_p_with_deadline %s", r == 0 ? "0" : "ETIMEDOUT");
				if (r != 0 && dl_ns (o) > vf_now ()) { vf_violation ("early-timeout", "semaphore timed out early"); } break; }
		case OP_SEM_V: vf_log ("call nsync_mu_semaphore_v sem%d", 100 + o->a); sem_used[o->a] = 1; vf_api_enter (); nsync_mu_semaphore_v (&sems[o->a]); vf_api_leave (); sem_posts_made[o->a]++; vf_log ("ret nsync_mu_semaphore_v -"); break;
		default: break;
		}
	}
}

/* ---------------------------------------------------------------- parsing */
static int objnum (const char *tok, const char *prefix) {
	size_t n = strlen (prefix);
	if (strncmp (tok, prefix, n) != 0) { return (-1); }
	return (atoi (tok + n));
}
static void parse_dl (const char *tok, struct op *o) {
	if (tok == NULL || strcmp (tok, "inf") == 0) { o->d.kind = 0; }
	else if (strcmp (tok, "z") == 0) { o->d.kind = 1; }
	else if (strcmp (tok, "neg") == 0) { o->d.kind = 2; }
	else if (tok[0] == 'p') { o->d.kind = 3; o->d.off = atoll (tok + 1); }
	else if (tok[0] == 'm') { o->d.kind = 3; o->d.off = -atoll (tok + 1); }
	else if (strncmp (tok, "raw:", 4) == 0) { o->d.kind = 4; o->raw_sec = atoll (tok + 4); { const char *c = strchr (tok + 4, ':'); o->raw_nsec = c ? atol (c + 1) : 0; } }
	else { o->d.kind = 0; }
}
static int parse_op (char *s, struct op *o) {
	char *tok[12]; int n = 0; char *sv; char *t;
	memset (o, 0, sizeof (*o)); o->e = -1; o->b = 0;
	for (t = strtok_r (s, " \t", &sv); t != NULL && n < 12; t = strtok_r (NULL, " \t", &sv)) { tok[n++] = t; }
	if (n == 0) { return (0); }
#define IS(x) (strcmp (tok[0], x) == 0)
#define A(i,p) (n > (i) ? objnum (tok[i], p) : -1)
	if (IS ("lock")) { o->code = OP_LOCK; o->a = A (1, "mu"); }
	else if (IS ("unlock")) { o->code = OP_UNLOCK; o->a = A (1, "mu"); }
	else if (IS ("rlock")) { o->code = OP_RLOCK; o->a = A (1, "mu"); }
	else if (IS ("runlock")) { o->code = OP_RUNLOCK; o->a = A (1, "mu"); }
	else if (IS ("trylock")) { o->code = OP_TRYLOCK; o->a = A (1, "mu"); }
	else if (IS ("rtrylock")) { o->code = OP_RTRYLOCK; o->a = A (1, "mu"); }
	else if (IS ("unlock_if")) { o->code = OP_UNLOCK_IF; o->a = A (1, "mu"); }
	else if (IS ("runlock_if")) { o->code = OP_RUNLOCK_IF; o->a = A (1, "mu"); }
	else if (IS ("unlock_nw")) { o->code = OP_UNLOCK_NW; o->a = A (1, "mu"); }
	else if (IS ("assert_held")) { o->code = OP_ASSERT_HELD; o->a = A (1, "mu"); }
	else if (IS ("rassert_held")) { o->code = OP_RASSERT_HELD; o->a = A (1, "mu"); }
	else if (IS ("is_reader")) { o->code = OP_IS_READER; o->a = A (1, "mu"); }
	else if (IS ("wr")) { o->code = OP_WR; o->a = A (1, "x"); o->b = n > 2 ? atoi (tok[2]) : 0; }
	else if (IS ("rd")) { o->code = OP_RD; o->a = A (1, "x"); }
	else if (IS ("inc")) { o->code = OP_INC; o->a = A (1, "x"); }
	else if (IS ("dec")) { o->code = OP_DEC; o->a = A (1, "x"); }
	else if (IS ("yield")) { o->code = OP_YIELD; }
	else if (IS ("advance")) { o->code = OP_ADVANCE; o->a = n > 1 ? atoi (tok[1]) : 0; }
	else if (IS ("after_blocked")) { o->code = OP_AFTER_BLOCKED; o->a = n > 1 ? atoi (tok[1]) : 0; }
	else if (IS ("after_done")) { o->code = OP_AFTER_BLOCKED; o->a = n > 1 ? atoi (tok[1]) : 0; o->b = 1; }   /* go on once fiber a has ended */
	else if (IS ("cvwait")) { o->code = OP_CVWAIT; o->a = A (1, "cv"); o->b = A (2, "mu"); parse_dl (n > 3 ? tok[3] : NULL, o); o->e = n > 4 ? objnum (tok[4], "n") : -1; }
	else if (IS ("await")) { o->code = OP_AWAIT; o->a = A (1, "cv"); o->b = A (2, "mu"); o->c = A (3, "x"); o->nobj = n > 4 ? atoi (tok[4]) : 0; parse_dl (n > 5 ? tok[5] : NULL, o); o->e = n > 6 ? objnum (tok[6], "n") : -1; }
	else if (IS ("signal")) { o->code = OP_SIGNAL; o->a = A (1, "cv"); }
	else if (IS ("broadcast")) { o->code = OP_BROADCAST; o->a = A (1, "cv"); }
	else if (IS ("muwait")) { o->code = OP_MUWAIT; o->a = A (1, "mu"); o->b = n > 2 ? objnum (tok[2], "c") : -1; parse_dl (n > 3 ? tok[3] : NULL, o); o->e = n > 4 ? objnum (tok[4], "n") : -1; }
	else if (IS ("note_new")) { o->code = OP_NOTE_NEW; o->a = A (1, "n"); o->b = n > 2 ? objnum (tok[2], "n") : -1; parse_dl (n > 3 ? tok[3] : NULL, o); }
	else if (IS ("notify")) { o->code = OP_NOTIFY; o->a = A (1, "n"); }
	else if (IS ("is_notified")) { o->code = OP_IS_NOTIFIED; o->a = A (1, "n"); }
	else if (IS ("note_wait")) { o->code = OP_NOTE_WAIT; o->a = A (1, "n"); parse_dl (n > 2 ? tok[2] : NULL, o); }
	else if (IS ("note_free")) { o->code = OP_NOTE_FREE; o->a = A (1, "n"); }
	else if (IS ("note_expiry")) { o->code = OP_NOTE_EXPIRY; o->a = A (1, "n"); }
	else if (IS ("ctr_new")) { o->code = OP_CTR_NEW; o->a = A (1, "k"); o->b = n > 2 ? (int) strtoul (tok[2], NULL, 10) : 0; } /* any uint32 value */
	else if (IS ("ctr_add")) { o->code = OP_CTR_ADD; o->a = A (1, "k"); o->b = n > 2 ? atoi (tok[2]) : 0; }
	else if (IS ("ctr_value")) { o->code = OP_CTR_VALUE; o->a = A (1, "k"); }
	else if (IS ("ctr_wait")) { o->code = OP_CTR_WAIT; o->a = A (1, "k"); parse_dl (n > 2 ? tok[2] : NULL, o); }
	else if (IS ("ctr_free")) { o->code = OP_CTR_FREE; o->a = A (1, "k"); }
	else if (IS ("once")) { o->code = OP_ONCE; o->a = A (1, "o"); o->b = n > 2 ? atoi (tok[2]) : 0; }
	else if (IS ("waitn") || IS ("awaitn")) {   /* waitn <mu|-> <dl> objs…   |   awaitn <mu> <dl> x<j> <v> objs… */
		int k; int first = 3; o->code = OP_WAITN; o->a = n > 1 ? objnum (tok[1], "mu") : -1; parse_dl (n > 2 ? tok[2] : NULL, o); o->c = -1;
		if (IS ("awaitn")) { o->c = A (3, "x"); o->e = n > 4 ? atoi (tok[4]) : 1; first = 5; }
		for (k = first; k < n && o->nobj < 6; k++) {
			if (objnum (tok[k], "cv") >= 0 && tok[k][0] == 'c') { o->objk[o->nobj] = 0; o->obji[o->nobj++] = objnum (tok[k], "cv"); }
			else if (tok[k][0] == 'n') { o->objk[o->nobj] = 1; o->obji[o->nobj++] = objnum (tok[k], "n"); }
			else if (tok[k][0] == 'k') { o->objk[o->nobj] = 2; o->obji[o->nobj++] = objnum (tok[k], "k"); }
		}
	}
	else if (IS ("dbg_mu")) { o->code = OP_DBG_MU; o->a = A (1, "mu"); o->b = n > 2 ? atoi (tok[2]) : 64; }
	else if (IS ("dbg_muw")) { o->code = OP_DBG_MUW; o->a = A (1, "mu"); o->b = n > 2 ? atoi (tok[2]) : 64; }
	else if (IS ("dbg_cv")) { o->code = OP_DBG_CV; o->a = A (1, "cv"); o->b = n > 2 ? atoi (tok[2]) : 64; }
	else if (IS ("dbg_cvw")) { o->code = OP_DBG_CVW; o->a = A (1, "cv"); o->b = n > 2 ? atoi (tok[2]) : 64; }
	else if (IS ("unref")) { o->code = OP_UNREF; o->a = A (1, "mu"); o->b = A (2, "x"); }
	else if (IS ("unref_held")) { o->code = OP_UNREF_HELD; o->a = A (1, "mu"); o->b = A (2, "x"); }   /* the caller holds the write lock already */
	else if (IS ("trylock_spin")) { o->code = OP_TRYLOCK_SPIN; o->a = A (1, "mu"); }
	else if (IS ("sem_p")) { o->code = OP_SEM_P; o->a = A (1, "s"); }
	else if (IS ("sem_pd")) { o->code = OP_SEM_PD; o->a = A (1, "s"); parse_dl (n > 2 ? tok[2] : NULL, o); }
	else if (IS ("sem_v")) { o->code = OP_SEM_V; o->a = A (1, "s"); }
	else { fprintf (stderr, "vfh: unknown op '%s'\n", tok[0]); return (-1); }
	return (1);
}

/* scenario text:
     sem counting|binary
     objs mu=<n> cv=<n> var=<n> once=<n> sem=<n>
     var x<i> <init> [mu<j>]
     cond c<k> eq|ge x<i> <val> [eq]
     pre <op> ; <op> ...           ops executed before the fibers start (single-threaded set-up)
     fiber <op> ; <op> ; ...
     expect stuck-ok                scenario may legitimately block (no deadlock oracle) */
static struct prog preprog;
static char *scen_lines[256]; static int nscen_lines;
static int parse_scenario (char **lines, int nlines) {
	int i;
	nmu = 1; ncv = 0; nvar = 0; nonce = 0; nsem = 0; nconds = 0; nprogs = 0; sem_binary = 0; expect_stuck_ok = 0; once_cb_len = 4; nchist = 0; once_nest_set = 0; memset (once_nest_to, 0, sizeof (once_nest_to)); memset (in_cv_wait_mu, 0, sizeof (in_cv_wait_mu)); preprog.n = 0;
	for (i = 0; i != MAXOBJ; i++) { var_mu[i] = -1; }
	/* first pass: sizes */
	for (i = 0; i != nlines; i++) {
		char *l = lines[i];
		if (strncmp (l, "objs ", 5) == 0) {
			char *p;
			if ((p = strstr (l, "mu=")) != NULL) { nmu = atoi (p + 3); }
			if ((p = strstr (l, "cv=")) != NULL) { ncv = atoi (p + 3); }
			if ((p = strstr (l, "var=")) != NULL) { nvar = atoi (p + 4); }
			if ((p = strstr (l, "once=")) != NULL) { nonce = atoi (p + 5); }
			if ((p = strstr (l, "sem=")) != NULL) { nsem = atoi (p + 4); }
		} else if (strncmp (l, "sem ", 4) == 0) { sem_binary = (strstr (l, "binary") != NULL); }
		else if (strncmp (l, "oncenest ", 9) == 0) { int a = 0, b = 0, v = 1; if (sscanf (l + 9, "o%d o%d %d", &a, &b, &v) >= 2 && a >= 0 && a < 256 && b > 0 && b < 256) { once_nest_to[a] = b; once_nest_var[a] = v; once_nest_set = 1; } }
		else if (strncmp (l, "oncecb ", 7) == 0) { once_cb_len = atoi (l + 7); if (once_cb_len < 1) { once_cb_len = 1; } }
		else if (strncmp (l, "expect stuck-ok", 15) == 0) { expect_stuck_ok = 1; }
	}
	mus = (nsync_mu *) vf_arena_alloc (sizeof (nsync_mu) * (nmu + 1)); memset (mus, 0, sizeof (nsync_mu) * (nmu + 1));
	cvs = (nsync_cv *) vf_arena_alloc (sizeof (nsync_cv) * (ncv + 1)); memset (cvs, 0, sizeof (nsync_cv) * (ncv + 1));
	vars = (int *) vf_arena_alloc (sizeof (int) * (nvar + 1)); memset (vars, 0, sizeof (int) * (nvar + 1));
	onces = (nsync_once *) vf_arena_alloc (sizeof (nsync_once) * (nonce + 1)); memset (onces, 0, sizeof (nsync_once) * (nonce + 1));
	sems = (nsync_semaphore *) vf_arena_alloc (sizeof (nsync_semaphore) * (nsem + 1)); memset (sems, 0, sizeof (nsync_semaphore) * (nsem + 1));
	for (i = 0; i != nmu; i++) { vf_reg (&mus[i], sizeof (mus[i]), K_MU, vf_next_index (K_MU)); }
	for (i = 0; i != ncv; i++) { vf_reg (&cvs[i], sizeof (cvs[i]), K_CV, vf_next_index (K_CV)); }
	for (i = 0; i != nonce; i++) { vf_reg (&onces[i], sizeof (onces[i]), K_ONCE, vf_next_index (K_ONCE)); }
	for (i = 0; i != nsem; i++) { vf_reg (&sems[i], sizeof (sems[i]), K_SEM, 100 + i); }
	for (i = 0; i != nlines; i++) {
		char *l = lines[i];
		if (strncmp (l, "var ", 4) == 0) {
			int x, v = 0, m = -1; char mb[16] = "";
			if (sscanf (l, "var x%d %d %15s", &x, &v, mb) >= 2) { vars[x] = v; if (mb[0]) { m = objnum (mb, "mu"); } var_mu[x] = m; }
		} else if (strncmp (l, "cond ", 5) == 0) {
			int k, x, v; char fn[8], eq[8] = "";
			if (sscanf (l, "cond c%d %7s x%d %d %7s", &k, fn, &x, &v, eq) >= 4) {
				conds[k].var = &vars[x]; conds[k].val = v; conds[k].id = k; conds[k].kind = (strcmp (fn, "ge") == 0);
				cond_eq[k] = (strncmp (eq, "eq", 2) == 0); cond_dbg[k] = (strstr (eq, "dbg") != NULL); if (k >= nconds) { nconds = k + 1; }
			}
		} else if (strncmp (l, "fiber ", 6) == 0 || strncmp (l, "pre ", 4) == 0) {
			struct prog *p = l[0] == 'f' ? &progs[nprogs++] : &preprog; char *sv; char *t; char *body = strdup (l + (l[0] == 'f' ? 6 : 4));
			if (l[0] == 'f') { p->n = 0; }
			for (t = strtok_r (body, ";", &sv); t != NULL; t = strtok_r (NULL, ";", &sv)) {
				int r = parse_op (t, &p->ops[p->n]);
				if (r < 0) { return (-1); }
				if (r > 0 && p->n >= MAXOPS - 1) { fprintf (stderr, "scenario: more than %d operations in one fiber\n", MAXOPS - 1); exit (97); } /* never truncate silently: a dropped final unlock once looked like a deadlock of the library */
				if (r > 0) { p->n++; }
			}
		}
	}
	return (0);
}

static int run_one (char **lines, int nlines, struct vf_config *cfg, FILE *out) {
	int i, outcome;
	if (parse_scenario (lines, nlines) != 0) { return (98); }
	cfg->binary_sem = sem_binary;
	vf_init (cfg);
	vf_lockann_hook = &lockann; vf_victim_may_run_hook = &victim_may_run; vf_lazy_release_hook = &lazy_release; vf_sem_sleep_hook = &sem_sleep; vf_requeue_hook = &requeue; nfibers_total = nprogs;
	vf_log_env ("tick %lld", (long long) START_NS);
	{ /* register the once_sync slots of once.c */
		char *base = (char *) vf_once_sync_base (); size_t st = vf_once_sync_stride (); int k;
		for (k = 0; k != 64; k++) { vf_reg (base + st * k, st, K_ONCESYNC, k); }
	}
	vf_reg (vf_pool_mu_addr (), 4, K_POOL, 0);
	if (preprog.n != 0) { run_prog (&preprog); }
	for (i = 0; i != nprogs; i++) { vf_spawn (&run_prog, &progs[i]); }
	outcome = vf_run ();
	if (outcome == VF_OK && !sem_binary) { /* C12: every post is either still in the count or was consumed by a wait that reported success */
		int k;
		for (k = 0; k != MAXOBJ; k++) {
			if (sem_used[k] && vf_sem_value (&sems[k]) != sem_posts_made[k] - sem_waits_ok[k]) {
				vf_violation ("sem-conservation", "semaphore s%d: %d posts, %d successful waits, but the count is %d: a post was lost or consumed by a wait that reported a timeout", k, sem_posts_made[k], sem_waits_ok[k], vf_sem_value (&sems[k]));
			}
		}
	}
	if (outcome == VF_OK || outcome == VF_STUCK) { chist_check (); if (vf_violation_text () != NULL && outcome == VF_OK) { outcome = VF_ORACLE; } }
	if (outcome == VF_STUCK) {
		/* C06 at quiescence: nobody can move any more (so no critical section is in progress); a thread still
		   inside nsync_mu_wait whose condition is TRUE has been left asleep by the release that made it true —
		   a violation even in scenarios that may legitimately block */
		int k;
		/* C04 / C02 at quiescence: a cv waiter that a signal / broadcast has already taken off the cv's queue (woken or
		   handed to the mutex queue) is still asleep although the mutex it needs is free and nobody can move */
		for (k = 0; k != 16; k++) {
			if (in_cv_wait_mu[k] != 0 && vf_waiter_unlinked_by_waker (k) &&
			    (*(volatile uint32_t *) &mus[in_cv_wait_mu[k] - 1] & (MU_WLOCK | MU_RLOCK_FIELD)) == 0) {
				vf_violation ("cv-woken-asleep", "fiber %d was taken off the cv queue by a signal / broadcast but is still asleep although mu%d is free and no thread can move", k, in_cv_wait_mu[k] - 1);
				outcome = VF_ORACLE;
			}
		}
		/* C02 at quiescence: a thread inside nsync_mu_lock / nsync_mu_rlock is asleep although the mutex is completely
		   free and nobody can move (no holder will ever wake it) — a violation even in scenarios that may block */
		for (k = 0; k != 16; k++) {
			if (in_lock_call[k] && (*(volatile uint32_t *) &mus[in_lock_mu[k]] & (MU_WLOCK | MU_RLOCK_FIELD)) == 0) {
				vf_violation ("lock-missed", "fiber %d is asleep inside nsync_mu_lock / nsync_mu_rlock although mu%d is free and no thread can move", k, in_lock_mu[k]);
				outcome = VF_ORACLE;
			}
		}
		for (k = 0; k != 16; k++) {
			struct cond_arg *c = waiting_cond[k];
			if (c != NULL && (c->kind ? (*c->var >= c->val) : (*c->var == c->val)) &&
			    (*(volatile uint32_t *) &mus[waiting_mu[k]] & (MU_WLOCK | MU_RLOCK_FIELD)) == 0) {
				vf_violation ("muwait-missed", "fiber %d is asleep in nsync_mu_wait although its condition c%d is true, the mutex is free and no thread can move", k, c->id);
				outcome = VF_ORACLE;
			}
		}
	}
	if (outcome == VF_STUCK && expect_stuck_ok) { outcome = VF_OK; }
	if (outcome == VF_OK) {
		for (i = 0; i != nmu; i++) { if (vf_name_of (&mus[i]) && api_w[i] == 0 && api_r[i] == 0) { /* quiescent */ } }
	}
	{
		int len; const int *s = vf_schedule (&len); int k; char *b = (char *) malloc (len * 4 + 64); int bn = 0;
		bn += sprintf (b + bn, "# sched");
		for (k = 0; k != len; k++) { if (s[k] < 0) { bn += sprintf (b + bn, " T"); } else { bn += sprintf (b + bn, " %d", s[k]); } }
		vf_log_env ("%s", "end");
		vf_flush_log (out);
		fprintf (out, "%s\n# outcome %s steps=%ld%s%s\n", b, vf_outcome_name (outcome), vf_steps (), vf_violation_text () ? " violation=" : "", vf_violation_text () ? vf_violation_text () : "");
		fflush (out);
		free (b);
	}
	return (outcome);
}

static void apply_kv (struct vf_config *cfg, const char *kv, int **script_store) {
	if (strncmp (kv, "seed=", 5) == 0) { cfg->seed = strtoull (kv + 5, NULL, 10); }
	else if (strncmp (kv, "strategy=", 9) == 0) { cfg->strategy = atoi (kv + 9); }
	else if (strncmp (kv, "pct=", 4) == 0) { cfg->pct_depth = atoi (kv + 4); }
	else if (strncmp (kv, "tick=", 5) == 0) { cfg->tick_prob = atoi (kv + 5); }
	else if (strncmp (kv, "steps=", 6) == 0) { cfg->step_limit = atol (kv + 6); }
	else if (strncmp (kv, "plain=", 6) == 0) { cfg->log_plain = atoi (kv + 6); }
	else if (strncmp (kv, "checkplain=", 11) == 0) { cfg->check_plain = atoi (kv + 11); }
	else if (strncmp (kv, "plainsched=", 11) == 0) { cfg->plain_sched = atoi (kv + 11); }
	else if (strncmp (kv, "failmalloc=", 11) == 0) { cfg->fail_malloc_at = atoi (kv + 11); }
	else if (strncmp (kv, "failmallocfrom=", 15) == 0) { cfg->fail_malloc_from = atoi (kv + 15); }
	else if (strncmp (kv, "failctor=", 9) == 0) { cfg->fail_ctor_at = atoi (kv + 9); }
	else if (strncmp (kv, "threadexit=", 11) == 0) { cfg->thread_exit = atoi (kv + 11); }
	else if (strncmp (kv, "futexfault=", 11) == 0) { cfg->futex_fault_prob = atoi (kv + 11); }
	else if (strncmp (kv, "sched=", 6) == 0) {
		/* comma separated tids, T = tick */
		int cap = 16, n = 0; int *s = (int *) malloc (cap * sizeof (int)); const char *p = kv + 6;
		while (*p) {
			if (n == cap) { cap *= 2; s = (int *) realloc (s, cap * sizeof (int)); }
			if (*p == 'T') { s[n++] = -1; p++; } else { s[n++] = (int) strtol (p, (char **) &p, 10); }
			if (*p == ',') { p++; }
		}
		cfg->script = s; cfg->script_len = n; *script_store = s;
	}
}
static void default_cfg (struct vf_config *cfg) {
	memset (cfg, 0, sizeof (*cfg));
	cfg->seed = 1; cfg->strategy = 0; cfg->pct_depth = 3; cfg->tick_prob = 20; cfg->step_limit = 60000; cfg->check_plain = 1;
}

static char *read_file (const char *path) {
	FILE *f = fopen (path, "r"); long n; char *b;
	if (f == NULL) { perror (path); exit (2); }
	fseek (f, 0, SEEK_END); n = ftell (f); fseek (f, 0, SEEK_SET);
	b = (char *) malloc (n + 2); if (fread (b, 1, n, f) != (size_t) n) { perror ("read"); exit (2); } b[n] = 0; fclose (f);
	return (b);
}

int main (int argc, char **argv) {
	struct vf_config cfg; int *ss = NULL; int i;
	setvbuf (stdout, NULL, _IOFBF, 1 << 16);
	if (argc >= 3 && strcmp (argv[1], "run") == 0) {
		char *txt = read_file (argv[2]); char *sv; char *l; int outcome;
		default_cfg (&cfg);
		for (l = strtok_r (txt, "\n", &sv); l != NULL; l = strtok_r (NULL, "\n", &sv)) {
			if (l[0] == '#' || l[0] == 0) { continue; }
			if (strncmp (l, "exec ", 5) == 0) { char *sv2; char *kv; char *c = strdup (l + 5); for (kv = strtok_r (c, " ", &sv2); kv; kv = strtok_r (NULL, " ", &sv2)) { apply_kv (&cfg, kv, &ss); } continue; }
			scen_lines[nscen_lines++] = l;
		}
		for (i = 3; i < argc; i++) { apply_kv (&cfg, argv[i], &ss); }
		outcome = run_one (scen_lines, nscen_lines, &cfg, stdout);
		return (outcome);
	}
	if (argc >= 4 && strcmp (argv[1], "batch") == 0) {
		/* batch file: blocks separated by "---"; a block = scenario lines + one or more "exec k=v ..." lines.
		   Every (block, exec line) pair is one execution, run in a forked child; 16 workers. */
		char *txt = read_file (argv[2]); const char *outdir = argv[3];
		int nworkers = 16; int w;
		/* split into lines */
		int cap = 1 << 16, nl = 0; char **lines = (char **) malloc (cap * sizeof (char *)); char *sv; char *l;
		for (i = 4; i < argc; i++) { if (strncmp (argv[i], "workers=", 8) == 0) { nworkers = atoi (argv[i] + 8); } }
		for (l = strtok_r (txt, "\n", &sv); l != NULL; l = strtok_r (NULL, "\n", &sv)) {
			if (nl == cap) { cap *= 2; lines = (char **) realloc (lines, cap * sizeof (char *)); }
			lines[nl++] = l;
		}
		mkdir (outdir, 0777);
		for (w = 0; w != nworkers; w++) {
			if (fork () == 0) {
				char path[512]; FILE *out; int b0 = 0; long execno = 0; int blockno = 0;
				snprintf (path, sizeof (path), "%s/log.%02d", outdir, w);
				out = fopen (path, "w");
				while (b0 < nl) {
					int b1 = b0; int j;
					while (b1 < nl && strcmp (lines[b1], "---") != 0) { b1++; }
					for (j = b0; j < b1; j++) {
						if (strncmp (lines[j], "exec ", 5) == 0) {
							if (execno % nworkers == w) {
								pid_t pid; int st;
								fprintf (out, "# begin block=%d %s\n", blockno, lines[j]); fflush (out);
								pid = fork ();
								if (pid == 0) {
									char *c = strdup (lines[j] + 5); char *sv2; char *kv; int k; int outcome;
									alarm (60); /* wall-clock watchdog: a loop without any scheduling point ends as `signal-14` (classified as a crash) instead of hanging the check */
									default_cfg (&cfg);
									for (k = 4; k < argc; k++) { apply_kv (&cfg, argv[k], &ss); }
									for (kv = strtok_r (c, " ", &sv2); kv; kv = strtok_r (NULL, " ", &sv2)) { apply_kv (&cfg, kv, &ss); }
									nscen_lines = 0;
									for (k = b0; k < b1; k++) { if (strncmp (lines[k], "exec ", 5) != 0 && lines[k][0] != '#' && lines[k][0] != 0) { scen_lines[nscen_lines++] = lines[k]; } }
									dup2 (fileno (out), 1);
									outcome = run_one (scen_lines, nscen_lines, &cfg, stdout);
									fflush (stdout);
									_exit (outcome);
								}
								waitpid (pid, &st, 0);
								fseek (out, 0, SEEK_END);
								if (WIFSIGNALED (st)) { fprintf (out, "# outcome signal-%d\n", WTERMSIG (st)); }
								else if (WEXITSTATUS (st) == VF_PANIC) { fprintf (out, "# outcome panic\n"); }
								else if (WEXITSTATUS (st) == VF_CRASH) { fprintf (out, "# outcome crash\n"); }
								else if (WEXITSTATUS (st) >= 90) { fprintf (out, "# outcome harness-error-%d\n", WEXITSTATUS (st)); }
								fprintf (out, "# endexec\n"); fflush (out);
							}
							execno++;
						}
					}
					b0 = b1 + 1; blockno++;
				}
				fclose (out);
				_exit (0);
			}
		}
		while (wait (NULL) > 0) { }
		return (0);
	}
	fprintf (stderr, "usage: vfh run <scenario> [k=v ...] | vfh batch <file> <outdir> [k=v ...]\n");
	return (2);
}
