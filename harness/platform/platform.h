/* Replacement platform.h for the instrumented (harness) build of nsync.
   Selected by include path; nothing in /repo is edited. */
#ifndef VF_PLATFORM_H_
#define VF_PLATFORM_H_
#if !defined(_GNU_SOURCE)
#define _GNU_SOURCE
#endif
#include <string.h>
#include <unistd.h>
#include <errno.h>
#include <stdlib.h>
#include <stddef.h>
#include <time.h>
#include <inttypes.h>
#include <limits.h>
#include <linux/futex.h>
#include <sys/syscall.h>
#include <stdio.h>
#include <stdarg.h>

/* Allocation and the clock go through the harness runtime. */
void *vf_malloc (size_t n, const char *func);
void vf_free (void *p, const char *func);
int vf_clock_gettime (int clk, struct timespec *ts);
long vf_syscall (long nr, ...);
#define malloc(n_) vf_malloc ((n_), __func__)
#define free(p_) vf_free ((p_), __func__)
#define clock_gettime(c_, t_) vf_clock_gettime ((c_), (t_))
#define syscall vf_syscall
#endif
