/* Replacement platform.h for the instrumented (harness) build of nsync.
   Selected by include path; nothing in /repo is edited. */
#ifndef VF_PLATFORM_H_
#define VF_PLATFORM_H_
#if !defined(_GNU_SOURCE)
#define _GNU_SOURCE
#endif
#include <string.h>
#include <unistd.h>
#include <errno.h>
#include <stdlib.h>
#include <stddef.h>
#include <time.h>
#include <inttypes.h>
#include <limits.h>
#include <linux/futex.h>
#include <sys/syscall.h>
#include <stdio.h>
#include <stdarg.h>

/* Allocation and the clock go through the harness runtime. */
void *vf_malloc (size_t n, const char *func);
void vf_free (void *p, const char *func);
int vf_clock_gettime (int clk, struct timespec *ts);
long vf_syscall (long nr, ...);
/* the rest of the allocator family goes through the same failure switch (an allocation failure is reported the way
   each function reports it: NULL, or an error number with *memptr left untouched) */
void *vf_calloc (size_t k, size_t n, const char *func);
void *vf_aligned_alloc (size_t al, size_t n, const char *func);
int vf_posix_memalign (void **pp, size_t al, size_t n, const char *func);
#define malloc(n_) vf_malloc ((n_), __func__)
#define calloc(k_, n_) vf_calloc ((k_), (n_), __func__)
#define aligned_alloc(a_, n_) vf_aligned_alloc ((a_), (n_), __func__)
#define memalign(a_, n_) vf_aligned_alloc ((a_), (n_), __func__)
#define posix_memalign(pp_, a_, n_) vf_posix_memalign ((pp_), (a_), (n_), __func__)
#define free(p_) vf_free ((p_), __func__)
#define clock_gettime(c_, t_) vf_clock_gettime ((c_), (t_))
#define syscall vf_syscall
#endif
