#ifndef VF_CPUTYPE_H_
#define VF_CPUTYPE_H_
#endif
