#ifndef VF_COMPILER_H_
#define VF_COMPILER_H_
#define INLINE
#define UNUSED __attribute__((unused))
#define THREAD_LOCAL
#define HAVE_THREAD_LOCAL 0
#endif
