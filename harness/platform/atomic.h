/* Replacement atomic.h: every ATM_* macro of nsync becomes a call into the
   harness runtime, which makes it a scheduling point, performs it on the real
   memory word and logs it with its declared order and its static site. */
#ifndef VF_ATOMIC_H_
#define VF_ATOMIC_H_
#include "compiler.h"
#include "nsync_atomic.h"
NSYNC_CPP_START_
enum { VF_RLX = 0, VF_ACQ = 1, VF_REL = 2, VF_AR = 3 };
uint32_t vf_load (const nsync_atomic_uint32_ *p, int ord, const char *file, int k, const char *func, const char *expr);
void vf_store (nsync_atomic_uint32_ *p, uint32_t v, int ord, const char *file, int k, const char *func, const char *expr);
int vf_cas (nsync_atomic_uint32_ *p, uint32_t o, uint32_t n, int ord, const char *file, int k, const char *func, const char *expr);
#define ATM_CAS(p,o,n)        vf_cas ((p), (o), (n), VF_RLX, __FILE_NAME__, __COUNTER__, __func__, #p)
#define ATM_CAS_ACQ(p,o,n)    vf_cas ((p), (o), (n), VF_ACQ, __FILE_NAME__, __COUNTER__, __func__, #p)
#define ATM_CAS_REL(p,o,n)    vf_cas ((p), (o), (n), VF_REL, __FILE_NAME__, __COUNTER__, __func__, #p)
#define ATM_CAS_RELACQ(p,o,n) vf_cas ((p), (o), (n), VF_AR,  __FILE_NAME__, __COUNTER__, __func__, #p)
#define ATM_LOAD(p)           vf_load ((p), VF_RLX, __FILE_NAME__, __COUNTER__, __func__, #p)
#define ATM_LOAD_ACQ(p)       vf_load ((p), VF_ACQ, __FILE_NAME__, __COUNTER__, __func__, #p)
#define ATM_STORE(p,v)        vf_store ((p), (v), VF_RLX, __FILE_NAME__, __COUNTER__, __func__, #p)
#define ATM_STORE_REL(p,v)    vf_store ((p), (v), VF_REL, __FILE_NAME__, __COUNTER__, __func__, #p)
NSYNC_CPP_END_
#endif
