#ifndef VF_NSYNC_TIME_INIT_H_
#define VF_NSYNC_TIME_INIT_H_
#define NSYNC_TIME_STATIC_INIT(t,ns) { (t), (ns) }
#endif
