/-
Stand-alone runner for the Dll (C17) correspondence check, for use until `Driver/Main.lean`
dispatches to `Dll.Driver`:

  /verif/harness/pure/dll/build.sh /verif/.cache/dll/gen_c c
  cd /verif/lean && lake build NsyncVerif.Model.DllDriver
  /verif/.cache/dll/gen_c quick 1 | (cd /verif/lean && lake env lean --run ../harness/pure/dll/RunDll.lean)

Prints the first 20 non-`ok` answers and `lines=<n> not-ok=<n> ms=<n>`; exit status 0 iff not-ok=0.
-/
import NsyncVerif.Model.DllDriver

partial def loop (h : IO.FS.Stream) (s : Dll.Driver.DState) (lines bad : Nat) : IO (Nat × Nat) := do
  let l ← h.getLine
  if l.isEmpty then return (lines, bad)
  let (s', out) := Dll.Driver.step s l
  if out == "ok" || out == "#" then loop h s' (lines + 1) bad
  else
    if bad < 20 then IO.println s!"{out}    <= {l.trimAscii}"
    loop h s' (lines + 1) (bad + 1)

def main : IO UInt32 := do
  let stdin ← IO.getStdin
  let t0 ← IO.monoMsNow
  let (lines, bad) ← loop stdin Dll.Driver.init 0 0
  let t1 ← IO.monoMsNow
  IO.println s!"lines={lines} not-ok={bad} ms={t1 - t0}"
  return (if bad == 0 then 0 else 1)
