/* Differential generator for layer Dll (property C17): drives the REAL /repo/internal/dll.c.

   Build (C flavour; build.sh does exactly this, output path = $1):
     gcc -O2 -Wall -I/repo/platform/linux -I/repo/platform/gcc -I/repo/platform/posix \
         -I/repo/platform/x86_64 -I/repo/public -I/repo/internal \
         /verif/harness/pure/dll/gen.c /repo/internal/dll.c -o <out>
   Build (C++11 flavour; build.sh <out> c++):
     g++ -x c++ -std=c++11 -O2 -Wall -DNSYNC_ATOMIC_CPP11 -DNSYNC_USE_CPP11_TIMEPOINT \
         -I/repo/platform/c++11 -I/repo/platform/gcc -I/repo/platform/posix \
         -I/repo/public -I/repo/internal \
         /verif/harness/pure/dll/gen.c /repo/internal/dll.c -o <out>
   (DLL_SRC=<file> in the environment of build.sh substitutes another dll.c: mutation testing.)

   Usage: gen <quick|thorough> <seed> [literal|dedup]

   Output: one line per operation,  `[@<d> ]<op> <args> => <dump>`  and a final `# cases=<n> ops=<n>`.
     reset <N> <L>            N elements (logical ids 1..N) all nsync_dll_init_'ed, L empty lists (the `container`
                              argument varies from case to case: own address / one shared object / NULL / two owners;
                              it never shows in the output because dll.c must not interpret it)
     make_first <lid> <e>     list[lid] = nsync_dll_make_first_in_list_ (list[lid], &el[e])
     make_last <lid> <e>      list[lid] = nsync_dll_make_last_in_list_ (list[lid], &el[e])
     remove <lid> <e>         list[lid] = nsync_dll_remove_ (list[lid], &el[e])
     move_first <lid> <lid2>  list[lid] = make_first (list[lid], nsync_dll_first_ (list[lid2])); list[lid2] = NULL
     move_last <lid> <lid2>   list[lid] = make_last (list[lid], nsync_dll_last_ (list[lid2])); list[lid2] = NULL
     splice <lid> <p> <lid2> <n>   nsync_dll_splice_after_ (&el[p], &el[n]); list[lid2] = NULL
                              (p in list lid, n in list lid2: all of lid2, from n round to n's
                              predecessor, lands right after p; the handle of lid is not touched)
     dump                     no operation
   The optional prefix `@<d>` means: first rewind to the state that held after the first <d>
   operations of the current case (the state after `reset` is d=0).  It is how the exhaustive
   depth-first enumeration backtracks without replaying prefixes.
   <dump> = for every list `L<i>:f=<ids via first/next>;b=<ids via last/prev>;e=<is_empty>`, then
   `S=<ids in no list that are self-linked>` and `U=<ids in no list that are NOT self-linked>`
   (membership is tracked here with plain arrays, independently of the library).
   Only contract-abiding operations are generated: inserted element is in no list, removed
   element is in that list, lid != lid2, spliced elements are in the two named lists.

   Tiers:
     quick     exhaustive depth-first enumeration to length 5 over 4 elements / 2 lists (mode `literal`
               by default) + 2000 random sequences, length <= 40, 6 elements / 3 lists
     thorough  exhaustive to length 7 over 5 elements / 2 lists (mode `dedup` by default)
               + 100000 random sequences, length <= 60, 6 elements / 3 lists
   Exhaustive modes (third argument overrides the tier's default):
     literal   EVERY contract-abiding operation sequence up to the length bound is emitted, one line
               per tree edge (quick: 1.4e6 lines; thorough: not practical, generation alone runs
               for more than 10 minutes).
     dedup     the search does not re-expand a concrete implementation state (all next/prev pointers
               and all handles, compared exactly) that was already expanded with at least as much
               remaining depth.  dll.c is a deterministic function of that state, so every
               (state, operation) pair that occurs in ANY sequence within the length bound is still
               executed and checked at least once; only repetitions are skipped.
   The final line reports cases (= leaves of the search tree + random sequences) and ops (= lines). */

#include "nsync_cpp.h"
#include "platform.h"
#include "compiler.h"
#include "cputype.h"
#include "dll.h"

#include <stdio.h>
#include <stdlib.h>
#include <string.h>
#include <stdint.h>

NSYNC_CPP_USING_

#define MAXN 8
#define MAXL 3

enum { OP_MAKE_FIRST, OP_MAKE_LAST, OP_REMOVE, OP_MOVE_FIRST, OP_MOVE_LAST, OP_SPLICE, OP_DUMP };
static const char *op_name[] = { "make_first", "make_last", "remove", "move_first", "move_last", "splice", "dump" };

typedef struct { int kind, a, b, c, d; } op_t;   /* splice: a=lid b=p c=lid2 d=n */

/* ---- state under test + independent membership tracking ---- */
typedef struct {
	nsync_dll_element_ el[MAXN];   /* logical id = index+1 */
	nsync_dll_list_ lst[MAXL];
	int where[MAXN];               /* -1: in no list; else list index */
} state_t;

static state_t *S;                     /* the live state (fixed address: elements point into it) */
static int N, L;
static unsigned long long n_cases, n_ops;
static int driver_top;                 /* depth of the state the Lean driver currently has on top */

static int id_of (nsync_dll_element_ *p) {
	if (p == NULL) return 0;
	if (p >= &S->el[0] && p < &S->el[N] && ((char *) p - (char *) &S->el[0]) % sizeof (S->el[0]) == 0)
		return (int) (p - &S->el[0]) + 1;
	return -1;
}

static char *put_id (char *o, int first, int id) {
	if (!first) *o++ = ',';
	if (id < 0) { *o++ = '?'; return o; }
	o += sprintf (o, "%d", id);
	return o;
}

static char *dump (char *o) {
	int i, k;
	nsync_dll_element_ *p;
	for (i = 0; i != L; i++) {
		o += sprintf (o, "L%d:f=", i);
		k = 0;
		for (p = nsync_dll_first_ (S->lst[i]); p != NULL; p = nsync_dll_next_ (S->lst[i], p)) {
			if (k > N || id_of (p) < 0) { o = put_id (o, k == 0, -1); break; }  /* runaway: only a buggy dll.c */
			o = put_id (o, k == 0, id_of (p));
			k++;
		}
		o += sprintf (o, ";b=");
		k = 0;
		for (p = nsync_dll_last_ (S->lst[i]); p != NULL; p = nsync_dll_prev_ (S->lst[i], p)) {
			if (k > N || id_of (p) < 0) { o = put_id (o, k == 0, -1); break; }
			o = put_id (o, k == 0, id_of (p));
			k++;
		}
		o += sprintf (o, ";e=%d ", nsync_dll_is_empty_ (S->lst[i]) ? 1 : 0);
	}
	o += sprintf (o, "S=");
	for (i = 0, k = 0; i != N; i++) {
		if (S->where[i] < 0 && S->el[i].next == &S->el[i] && S->el[i].prev == &S->el[i]) {
			o = put_id (o, k == 0, i + 1);
			k++;
		}
	}
	o += sprintf (o, " U=");
	for (i = 0, k = 0; i != N; i++) {
		if (S->where[i] < 0 && !(S->el[i].next == &S->el[i] && S->el[i].prev == &S->el[i])) {
			o = put_id (o, k == 0, i + 1);
			k++;
		}
	}
	*o = 0;
	return o;
}

static char line[1024];
static volatile uintptr_t requery_sink;
static int requery_bad;   /* the queries re-asked after the last splice did not match the link fields */

/* What nsync_dll_init_ is given as `container` (an arbitrary caller-chosen pointer that dll.c must never
   interpret): 0 = the element itself, 1 = one object shared by all elements, 2 = NULL, 3 = two owners. */
static int cmode;
static void *container_for (int i) {
	switch (cmode) {
	case 1: return ((void *) &S->el[0]);
	case 2: return (NULL);
	case 3: return ((void *) &S->el[i & 1]);
	default: return ((void *) &S->el[i]);
	}
}

static void emit_reset (int n, int l) {
	int i;
	char *o = line;
	N = n;
	L = l;
	memset (S, 0, sizeof (*S));
	for (i = 0; i != N; i++) {
		nsync_dll_init_ (&S->el[i], container_for (i));
		S->where[i] = -1;
	}
	for (i = 0; i != L; i++) {
		S->lst[i] = NULL;
	}
	printf ("# containers=%d\n", cmode);
	o += sprintf (o, "reset %d %d => ", N, L);
	o = dump (o);
	puts (line);
	driver_top = 0;
}

/* Does the operation respect the documented contract in the tracked state? */
static int ok (op_t op) {
	switch (op.kind) {
	case OP_MAKE_FIRST: case OP_MAKE_LAST: return (S->where[op.b - 1] < 0);
	case OP_REMOVE: return (S->where[op.b - 1] == op.a);
	case OP_MOVE_FIRST: case OP_MOVE_LAST: return (op.a != op.b);
	case OP_SPLICE: return (op.a != op.c && S->where[op.b - 1] == op.a && S->where[op.d - 1] == op.c);
	default: return (1);
	}
}

static void apply (op_t op) {
	int i;
	switch (op.kind) {
	case OP_MAKE_FIRST:
		S->lst[op.a] = nsync_dll_make_first_in_list_ (S->lst[op.a], &S->el[op.b - 1]);
		S->where[op.b - 1] = op.a;
		break;
	case OP_MAKE_LAST:
		S->lst[op.a] = nsync_dll_make_last_in_list_ (S->lst[op.a], &S->el[op.b - 1]);
		S->where[op.b - 1] = op.a;
		break;
	case OP_REMOVE:
		S->lst[op.a] = nsync_dll_remove_ (S->lst[op.a], &S->el[op.b - 1]);
		S->where[op.b - 1] = -1;
		break;
	case OP_MOVE_FIRST:
		S->lst[op.a] = nsync_dll_make_first_in_list_ (S->lst[op.a], nsync_dll_first_ (S->lst[op.b]));
		S->lst[op.b] = NULL;
		for (i = 0; i != N; i++) if (S->where[i] == op.b) S->where[i] = op.a;
		break;
	case OP_MOVE_LAST:
		S->lst[op.a] = nsync_dll_make_last_in_list_ (S->lst[op.a], nsync_dll_last_ (S->lst[op.b]));
		S->lst[op.b] = NULL;
		for (i = 0; i != N; i++) if (S->where[i] == op.b) S->where[i] = op.a;
		break;
	case OP_SPLICE: {
		/* The way a CALLER uses the queries: ask, mutate, ask again — in one function, with the same pointer values
		   (the list pointer of the destination does not change in a splice).  The answers after the mutation must
		   be what the link fields say now, not what was answered before (a query declared `const` instead of
		   `pure`, or cached in any other way, fails here while every link in memory is right). */
		nsync_dll_list_ l = S->lst[op.a];
		nsync_dll_element_ *pe = &S->el[op.b - 1], *ne = &S->el[op.d - 1];
		nsync_dll_element_ *f0 = nsync_dll_first_ (l), *x0 = nsync_dll_next_ (l, pe), *v0 = nsync_dll_prev_ (l, ne), *t0 = nsync_dll_last_ (l);
		int e0 = nsync_dll_is_empty_ (l);
		requery_sink = (uintptr_t) f0 ^ (uintptr_t) x0 ^ (uintptr_t) v0 ^ (uintptr_t) t0 ^ (uintptr_t) e0;
		nsync_dll_splice_after_ (pe, ne);
		{
			nsync_dll_element_ *f1 = nsync_dll_first_ (l), *x1 = nsync_dll_next_ (l, pe), *v1 = nsync_dll_prev_ (l, ne), *t1 = nsync_dll_last_ (l);
			int e1 = nsync_dll_is_empty_ (l);
			/* what memory says */
			nsync_dll_element_ *mf = l == NULL ? NULL : *(nsync_dll_element_ *volatile *) &l->next;
			nsync_dll_element_ *mx = pe == l ? NULL : *(nsync_dll_element_ *volatile *) &pe->next;
			nsync_dll_element_ *mv = ne == mf ? NULL : *(nsync_dll_element_ *volatile *) &ne->prev;
			requery_bad = (f1 != mf) || (x1 != mx) || (v1 != mv) || (t1 != l) || (e1 != (l == NULL));
		}
		S->lst[op.c] = NULL;
		for (i = 0; i != N; i++) if (S->where[i] == op.c) S->where[i] = op.a;
		break; }
	default:
		break;
	}
}

/* Apply op at depth `depth` (number of operations already applied in this case) and print it. */
static void emit_op (op_t op, int depth) {
	char *o = line;
	apply (op);
	if (driver_top != depth) o += sprintf (o, "@%d ", depth);
	if (op.kind == OP_DUMP) o += sprintf (o, "dump => ");
	else if (op.kind == OP_SPLICE) o += sprintf (o, "splice %d %d %d %d => ", op.a, op.b, op.c, op.d);
	else o += sprintf (o, "%s %d %d => ", op_name[op.kind], op.a, op.b);
	o = dump (o);
	if (requery_bad) { o += sprintf (o, " Q=stale-answer-after-splice"); requery_bad = 0; }
	puts (line);
	driver_top = depth + 1;
	n_ops++;
}

#define MAXOPS (MAXL * (MAXN * 3 + MAXL * 2 + MAXN * MAXL * MAXN))
/* All syntactically possible operations, in a fixed order. */
static int all_ops (op_t *ops) {
	int n = 0, a, b, c, d, k;
	memset (ops, 0, sizeof (ops[0]) * MAXOPS);
	for (a = 0; a != L; a++) {
		for (b = 1; b <= N; b++) {
			for (k = OP_MAKE_FIRST; k <= OP_REMOVE; k++) { ops[n].kind = k; ops[n].a = a; ops[n].b = b; n++; }
		}
		for (b = 0; b != L; b++) {
			for (k = OP_MOVE_FIRST; k <= OP_MOVE_LAST; k++) { ops[n].kind = k; ops[n].a = a; ops[n].b = b; n++; }
		}
		for (b = 1; b <= N; b++) for (c = 0; c != L; c++) for (d = 1; d <= N; d++) {
			ops[n].kind = OP_SPLICE; ops[n].a = a; ops[n].b = b; ops[n].c = c; ops[n].d = d; n++;
		}
	}
	return (n);
}

/* ---- exact concrete-state key for `dedup` (pointers -> ids, 4 bits each) ---- */
static uint64_t state_key (void) {
	uint64_t k = 0;
	int i;
	for (i = 0; i != N; i++) {
		k = (k << 4) | (uint64_t) id_of (S->el[i].next);
		k = (k << 4) | (uint64_t) id_of (S->el[i].prev);
	}
	for (i = 0; i != L; i++) k = (k << 4) | (uint64_t) id_of (S->lst[i]);
	return (k);   /* N<=6, L<=2 in the exhaustive tiers: 4*(2*6+2) = 56 bits */
}
#define TAB (1u << 20)
static uint64_t tab_key[TAB];
static signed char tab_rem[TAB];      /* 0 = empty slot, else remaining depth + 1 */
static int dedup;

static int seen (int remaining) {
	uint64_t k = state_key ();
	uint32_t h = (uint32_t) ((k * 0x9E3779B97F4A7C15ull) >> 44) & (TAB - 1);
	while (tab_rem[h] != 0 && tab_key[h] != k) h = (h + 1) & (TAB - 1);
	if (tab_rem[h] != 0 && tab_rem[h] - 1 >= remaining) return (1);
	tab_key[h] = k;
	tab_rem[h] = (signed char) (remaining + 1);
	return (0);
}

static void dfs (int depth, int maxdepth) {
	op_t ops[MAXOPS];
	int n, i;
	state_t saved;
	if (depth == maxdepth || (dedup && seen (maxdepth - depth))) { n_cases++; return; }
	n = all_ops (ops);
	saved = *S;
	for (i = 0; i != n; i++) {
		if (ok (ops[i])) {
			emit_op (ops[i], depth);
			dfs (depth + 1, maxdepth);
			*S = saved;   /* elements point into S itself, so a plain copy restores the heap */
		}
	}
}

/* ---- PRNG: splitmix64 ---- */
static uint64_t rng_state;
static uint64_t rnd (void) {
	uint64_t z = (rng_state += 0x9E3779B97F4A7C15ull);
	z = (z ^ (z >> 30)) * 0xBF58476D1CE4E5B9ull;
	z = (z ^ (z >> 27)) * 0x94D049BB133111EBull;
	return (z ^ (z >> 31));
}

static void random_cases (unsigned long count, int n, int l, int maxlen) {
	op_t ops[MAXOPS], good[MAXOPS + 1];
	unsigned long c;
	for (c = 0; c != count; c++) {
		int len = 1 + (int) (rnd () % (uint64_t) maxlen);
		int d;
		cmode = (int) (c & 3);
		emit_reset (n, l);
		for (d = 0; d != len; d++) {
			int m = all_ops (ops), g = 0, i;
			for (i = 0; i != m; i++) if (ok (ops[i])) good[g++] = ops[i];
			if (rnd () % 16 == 0) { memset (&good[0], 0, sizeof (good[0])); good[0].kind = OP_DUMP; g = 1; }
			emit_op (good[rnd () % (uint64_t) g], d);
		}
		n_cases++;
	}
}

int main (int argc, char **argv) {
	static state_t the_state;
	static char obuf[1 << 16];
	int thorough;
	if (argc < 3 || (strcmp (argv[1], "quick") != 0 && strcmp (argv[1], "thorough") != 0)) {
		fprintf (stderr, "usage: %s <quick|thorough> <seed> [literal|dedup]\n", argv[0]);
		return (2);
	}
	thorough = (strcmp (argv[1], "thorough") == 0);
	rng_state = strtoull (argv[2], NULL, 10);
	dedup = thorough;
	if (argc > 3 && strcmp (argv[3], "dedup") == 0) dedup = 1;
	else if (argc > 3 && strcmp (argv[3], "literal") == 0) dedup = 0;
	else if (argc > 3) { fprintf (stderr, "unknown mode %s\n", argv[3]); return (2); }
	S = &the_state;
	setvbuf (stdout, obuf, _IOFBF, sizeof (obuf));
	printf ("# dll tier=%s seed=%s dedup=%d\n", argv[1], argv[2], dedup);
	if (thorough) {
		emit_reset (5, 2);
		dfs (0, 7);
		for (cmode = 1; cmode != 4; cmode++) { emit_reset (4, 2); dfs (0, 6); }
		cmode = 0;
		random_cases (100000, 6, 3, 60);
	} else {
		emit_reset (4, 2);
		dfs (0, 5);
		for (cmode = 1; cmode != 4; cmode++) { emit_reset (4, 2); dfs (0, 4); }
		cmode = 0;
		random_cases (2000, 6, 3, 40);
	}
	printf ("# cases=%llu ops=%llu\n", n_cases, n_ops);
	return (0);
}
