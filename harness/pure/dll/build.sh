#!/bin/sh
# Build the Dll (C17) differential generator against the REAL /repo/internal/dll.c.
#   build.sh <output-path> [c|c++]
# Environment: DLL_SRC=<path> substitutes another dll.c (used only for mutation sanity tests).
# Writes nothing but <output-path> (put it under /verif/.cache/).
set -eu
out=${1:?usage: build.sh <output-path> [c|c++]}
flavour=${2:-c}
here=$(cd "$(dirname "$0")" && pwd)
repo="${NSYNC_REPO:-/repo}"
src=${DLL_SRC:-$repo/internal/dll.c}
mkdir -p "$(dirname "$out")"
case "$flavour" in
c)
	gcc -O2 -Wall -I$repo/platform/linux -I$repo/platform/gcc -I$repo/platform/posix \
		-I$repo/platform/x86_64 -I$repo/public -I$repo/internal \
		"$here/gen.c" "$src" -o "$out"
	;;
c++)
	g++ -x c++ -std=c++11 -O2 -Wall -DNSYNC_ATOMIC_CPP11 -DNSYNC_USE_CPP11_TIMEPOINT \
		-I$repo/platform/c++11 -I$repo/platform/gcc -I$repo/platform/posix \
		-I$repo/public -I$repo/internal \
		"$here/gen.c" "$src" -o "$out"
	;;
*)
	echo "unknown flavour $flavour" >&2
	exit 2
	;;
esac
