/* Pure differential generator for the Emit layer (property C16, buffer half).

   Links the REAL nsync library sources (see build.sh) and calls the real
   nsync_mu_debug_state, nsync_cv_debug_state, nsync_mu_debug_state_and_waiters and
   nsync_cv_debug_state_and_waiters on a buffer of size max(n,0) that sits between two
   64-byte canary regions filled with 0xA5.  The buffer is prefilled with 0xEE so that
   bytes the library did not store to stay visible as "ee".

   usage: gen <quick|thorough> <seed>
   lines (see NsyncVerif/Model/EmitDriver.lean):
     mu_state <n> <addr-hex> <word> => <hex of buf[0..max(n,0)-1] or -> canary=<ok|bad>
     cv_state <n> <addr-hex> <word> => ...
     mu_waiters <n> <nwaiters> <hex of the full untruncated string> => <hex> canary=<ok|bad>
     cv_waiters <n> <nwaiters> <hex of the full untruncated string> => <hex> canary=<ok|bad>
     # cases=<count>
   <word> is the decimal value of the object's word when the call was made.

   States without waiters: free, write-locked, 1/2/17 readers (through the real lock API), and
   synthetic word values stored directly into mu->word / cv->word (print_waiters==0 never looks
   at the waiter list), so that every bit name and many reader counts are printed.  The objects
   are placed at chosen addresses (mmap hints) so that addresses of different hex lengths occur.
   States with waiters: real threads blocked in nsync_mu_lock / nsync_mu_rlock / nsync_cv_wait.  */

#include "nsync_cpp.h"
#include "platform.h"
#include "compiler.h"
#include "cputype.h"
#include "nsync.h"
#include "atomic.h"

#include <stdio.h>
#include <stdlib.h>
#include <string.h>
#include <stdint.h>
#include <pthread.h>
#include <sys/mman.h>

NSYNC_CPP_USING_

#define CANARY 64
#define MAXBUF 8192

static uint64_t rng_state;
static uint64_t rnd64 (void) {                 /* splitmix64 */
	uint64_t z = (rng_state += 0x9E3779B97F4A7C15ULL);
	z = (z ^ (z >> 30)) * 0xBF58476D1CE4E5B9ULL;
	z = (z ^ (z >> 27)) * 0x94D049BB133111EBULL;
	return (z ^ (z >> 31));
}

static unsigned long long ncases = 0;
static unsigned char region[CANARY + MAXBUF + CANARY];

static void put_hex (const unsigned char *p, int len) {
	int i;
	if (len <= 0) {
		putchar ('-');
	}
	for (i = 0; i < len; i++) {
		printf ("%02x", p[i]);
	}
}

enum which { MU_STATE, CV_STATE, MU_WAITERS, CV_WAITERS };

/* Prepare canaries and buffer for size n; return the buffer. */
static char *prepare (int n) {
	int sz = n > 0 ? n : 0;
	memset (region, 0xA5, CANARY);
	memset (region + CANARY, 0xEE, (size_t) sz);
	memset (region + CANARY + sz, 0xA5, CANARY);
	return ((char *) (region + CANARY));
}

static void finish (int n) {
	int sz = n > 0 ? n : 0;
	int ok = 1;
	int i;
	for (i = 0; i != CANARY; i++) {
		if (region[i] != 0xA5 || region[CANARY + sz + i] != 0xA5) {
			ok = 0;
		}
	}
	put_hex (region + CANARY, sz);
	printf (" canary=%s\n", ok ? "ok" : "bad");
	ncases++;
}

static void one_call (enum which w, void *obj, int n) {
	char *buf = prepare (n);
	switch (w) {
	case MU_STATE:   nsync_mu_debug_state ((nsync_mu *) obj, buf, n); break;
	case CV_STATE:   nsync_cv_debug_state ((nsync_cv *) obj, buf, n); break;
	case MU_WAITERS: nsync_mu_debug_state_and_waiters ((nsync_mu *) obj, buf, n); break;
	case CV_WAITERS: nsync_cv_debug_state_and_waiters ((nsync_cv *) obj, buf, n); break;
	}
}

static void mu_state_line (nsync_mu *mu, int n) {
	uint32_t word = ATM_LOAD (&mu->word);
	printf ("mu_state %d %llx %lu => ", n, (unsigned long long) (uintptr_t) mu,
		(unsigned long) word);
	one_call (MU_STATE, mu, n);
	finish (n);
}

static void cv_state_line (nsync_cv *cv, int n) {
	uint32_t word = ATM_LOAD (&cv->word);
	printf ("cv_state %d %llx %lu => ", n, (unsigned long long) (uintptr_t) cv,
		(unsigned long) word);
	one_call (CV_STATE, cv, n);
	finish (n);
}

/* Place an object of the given size at (or near) the hinted address. */
static void *place (uintptr_t hint, size_t offset) {
	int flags = MAP_PRIVATE | MAP_ANONYMOUS;
	void *p;
#if defined(MAP_FIXED_NOREPLACE)
	p = mmap ((void *) hint, 4096, PROT_READ | PROT_WRITE, flags | MAP_FIXED_NOREPLACE, -1, 0);
	if (p == MAP_FAILED)
#endif
	{
		p = mmap ((void *) hint, 4096, PROT_READ | PROT_WRITE, flags, -1, 0);
	}
	if (p == MAP_FAILED) {
		perror ("mmap");
		exit (3);
	}
	return ((char *) p + offset);
}

/* ---- threads that block ---- */

struct blocker {
	nsync_mu *mu;
	nsync_cv *cv;      /* NULL: block in lock; else block in cv wait */
	int reader;
	int *release;      /* protected by mu; cv waiters wait for it */
	pthread_t th;
};

static void *blocker_main (void *v) {
	struct blocker *b = (struct blocker *) v;
	if (b->cv == NULL) {
		if (b->reader) {
			nsync_mu_rlock (b->mu);
			nsync_mu_runlock (b->mu);
		} else {
			nsync_mu_lock (b->mu);
			nsync_mu_unlock (b->mu);
		}
	} else {
		nsync_mu_lock (b->mu);
		while (!*b->release) {
			nsync_cv_wait (b->cv, b->mu);
		}
		nsync_mu_unlock (b->mu);
	}
	return (NULL);
}

static int count_newlines (const char *s) {
	int c = 0;
	for (; *s != 0; s++) {
		c += (*s == '\n');
	}
	return (c);
}

static const int big_n[] = { 96, 100, 127, 128, 129, 200, 255, 256, 300, 400, 512, 700, 1000, 2000 };

/* Emit the waiters lines for an object that currently has k blocked threads. */
static void waiters_lines (enum which w, void *obj, int k, int max_small_n) {
	static char full[MAXBUF];
	int n;
	unsigned i;
	int tries = 0;
	/* Wait until all k threads are queued: the text has 2 + k newlines then. */
	for (;;) {
		memset (full, 0, sizeof (full));
		if (w == MU_WAITERS) {
			nsync_mu_debug_state_and_waiters ((nsync_mu *) obj, full, MAXBUF);
		} else {
			nsync_cv_debug_state_and_waiters ((nsync_cv *) obj, full, MAXBUF);
		}
		if (count_newlines (full) == 2 + k) {
			break;
		}
		if (++tries > 20000) {
			fprintf (stderr, "gen: waiters never queued (%s)\n", full);
			exit (4);
		}
		nsync_time_sleep (nsync_time_ms (1));
	}
	/* let the last thread finish going to sleep; the text does not depend on it */
	nsync_time_sleep (nsync_time_ms (5));
	for (n = -1; n <= max_small_n + (int) (sizeof (big_n) / sizeof (big_n[0])); n++) {
		int size = n <= max_small_n ? n : big_n[n - max_small_n - 1];
		char *buf;
		/* take the reference text immediately before each call */
		memset (full, 0, sizeof (full));
		if (w == MU_WAITERS) {
			nsync_mu_debug_state_and_waiters ((nsync_mu *) obj, full, MAXBUF);
		} else {
			nsync_cv_debug_state_and_waiters ((nsync_cv *) obj, full, MAXBUF);
		}
		printf ("%s %d %d ", w == MU_WAITERS ? "mu_waiters" : "cv_waiters", size, k);
		put_hex ((const unsigned char *) full, (int) strlen (full));
		printf (" => ");
		buf = prepare (size);
		if (w == MU_WAITERS) {
			nsync_mu_debug_state_and_waiters ((nsync_mu *) obj, buf, size);
		} else {
			nsync_cv_debug_state_and_waiters ((nsync_cv *) obj, buf, size);
		}
		finish (size);
	}
	(void) i;
}

int main (int argc, char **argv) {
	static const uintptr_t hints[] = {
		(uintptr_t) 0x10000, (uintptr_t) 0x12345000, (uintptr_t) 0x7e0000001000ULL
	};
	static const size_t offsets[] = { 0, 0xab0, 0x7f8 };
	static const uint32_t fixed_words[] = {
		0u, 1u, 2u, 3u, 4u, 8u, 16u, 32u, 64u, 128u, 255u, 256u, 257u, 512u, 0x1100u,
		0xfffu, 0x1000u, 0x7fffffffu, 0x80000000u, 0xffffff00u, 0xffffffffu
	};
	int quick;
	int nwords;
	int max_n;
	int h, n, i, k;

	if (argc != 3 || (strcmp (argv[1], "quick") != 0 && strcmp (argv[1], "thorough") != 0)) {
		fprintf (stderr, "usage: %s <quick|thorough> <seed>\n", argv[0]);
		return (2);
	}
	quick = strcmp (argv[1], "quick") == 0;
	rng_state = strtoull (argv[2], NULL, 10);
	nwords = quick ? 60 : 1500;
	max_n = 80;

	for (h = 0; h != 3; h++) {
		nsync_mu *mu = (nsync_mu *) place (hints[h], offsets[h]);
		nsync_cv *cv = (nsync_cv *) place (hints[h] + 0x100000, offsets[h] + 0x100);
		nsync_mu_init (mu);
		nsync_cv_init (cv);

		/* real lock states, no waiters */
		for (n = -1; n <= max_n; n++) {
			mu_state_line (mu, n);                 /* free */
		}
		nsync_mu_lock (mu);
		for (n = -1; n <= max_n; n++) {
			mu_state_line (mu, n);                 /* write-locked */
		}
		nsync_mu_unlock (mu);
		for (i = 1; i <= 17; i++) {
			nsync_mu_rlock (mu);
			if (i == 1 || i == 2 || i == 17) {
				for (n = -1; n <= max_n; n++) {
					mu_state_line (mu, n);         /* i readers */
				}
			}
		}
		for (i = 1; i <= 17; i++) {
			nsync_mu_runlock (mu);
		}
		for (n = -1; n <= max_n; n++) {
			cv_state_line (cv, n);                 /* empty cv */
		}

		/* synthetic word values: every bit name, many reader counts */
		for (i = 0; i != (int) (sizeof (fixed_words) / sizeof (fixed_words[0])) + nwords; i++) {
			uint32_t w;
			if (i < (int) (sizeof (fixed_words) / sizeof (fixed_words[0]))) {
				w = fixed_words[i];
			} else {
				w = (uint32_t) rnd64 ();
				if ((i & 1) != 0) {
					w >>= (unsigned) (rnd64 () % 32);
				}
			}
			ATM_STORE (&mu->word, w);
			ATM_STORE (&cv->word, w & 3u);
			if (i < (int) (sizeof (fixed_words) / sizeof (fixed_words[0]))) {
				for (n = -1; n <= max_n; n++) {
					mu_state_line (mu, n);
				}
			} else {
				/* a random handful of sizes, always including the boundary ones */
				for (n = -1; n <= 5; n++) {
					mu_state_line (mu, n);
				}
				for (k = 0; k != 6; k++) {
					mu_state_line (mu, 6 + (int) (rnd64 () % 120));
				}
				cv_state_line (cv, (int) (rnd64 () % 50) - 1);
			}
		}
		for (i = 0; i != 4; i++) {
			ATM_STORE (&cv->word, (uint32_t) i);
			for (n = -1; n <= max_n; n++) {
				cv_state_line (cv, n);
			}
		}
		ATM_STORE (&mu->word, 0);
		ATM_STORE (&cv->word, 0);
	}

	/* states with queued waiters: k threads blocked on a write-locked mu */
	for (k = 1; k <= 3; k++) {
		static nsync_mu mu;
		struct blocker b[3];
		nsync_mu_init (&mu);
		nsync_mu_lock (&mu);
		for (i = 0; i != k; i++) {
			b[i].mu = &mu;
			b[i].cv = NULL;
			b[i].reader = (i == 1);
			b[i].release = NULL;
			pthread_create (&b[i].th, NULL, &blocker_main, &b[i]);
		}
		waiters_lines (MU_WAITERS, &mu, k, max_n);
		nsync_mu_unlock (&mu);
		for (i = 0; i != k; i++) {
			pthread_join (b[i].th, NULL);
		}
	}

	/* k threads blocked in nsync_cv_wait */
	for (k = 1; k <= 2; k++) {
		static nsync_mu mu;
		static nsync_cv cv;
		static int release;
		struct blocker b[2];
		nsync_mu_init (&mu);
		nsync_cv_init (&cv);
		release = 0;
		for (i = 0; i != k; i++) {
			b[i].mu = &mu;
			b[i].cv = &cv;
			b[i].reader = 0;
			b[i].release = &release;
			pthread_create (&b[i].th, NULL, &blocker_main, &b[i]);
		}
		waiters_lines (CV_WAITERS, &cv, k, max_n);
		nsync_mu_lock (&mu);
		release = 1;
		nsync_cv_broadcast (&cv);
		nsync_mu_unlock (&mu);
		for (i = 0; i != k; i++) {
			pthread_join (b[i].th, NULL);
		}
	}

	printf ("# cases=%llu\n", ncases);
	return (0);
}
