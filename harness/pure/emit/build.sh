#!/bin/sh
# Build the Emit differential generator against the real nsync library sources in /repo.
# usage: build.sh <out>
# DEBUG_C overrides /repo/internal/debug.c (used only by the mutation sanity test, which compiles
# scratch copies with seeded bugs).
set -eu
out="$1"
here="$(cd "$(dirname "$0")" && pwd)"
repo="${NSYNC_REPO:-/repo}"
debug_c="${DEBUG_C:-$repo/internal/debug.c}"
mkdir -p "$(dirname "$out")"
gcc -O1 -Wall -pthread \
  -I"$repo/platform/linux" -I"$repo/platform/gcc" -I"$repo/platform/posix" \
  -I"$repo/platform/x86_64" -I"$repo/public" -I"$repo/internal" \
  "$here/gen.c" \
  "$repo/internal/common.c" "$repo/internal/counter.c" "$repo/internal/cv.c" "$debug_c" \
  "$repo/internal/dll.c" "$repo/internal/mu.c" "$repo/internal/mu_wait.c" \
  "$repo/internal/note.c" "$repo/internal/once.c" "$repo/internal/sem_wait.c" \
  "$repo/internal/time_internal.c" "$repo/internal/wait.c" \
  "$repo/platform/posix/src/nsync_panic.c" "$repo/platform/posix/src/per_thread_waiter.c" \
  "$repo/platform/posix/src/time_rep.c" "$repo/platform/posix/src/yield.c" \
  "$repo/platform/linux/src/nsync_semaphore_futex.c" \
  -o "$out" -lpthread
