#!/bin/sh
# Build the Time differential generator against the real nsync sources in /repo.
# usage: build.sh <out>      produces <out> (C flavour) and <out>_cpp (C++11 flavour)
# Override the source files with TIME_REP_C / TIME_REP_CC / TIME_INTERNAL_C (used only by the
# mutation sanity test, which compiles scratch copies with seeded bugs).
set -eu
out="$1"
here="$(cd "$(dirname "$0")" && pwd)"
repo="${NSYNC_REPO:-/repo}"
rep_c="${TIME_REP_C:-$repo/platform/posix/src/time_rep.c}"
rep_cc="${TIME_REP_CC:-$repo/platform/c++11/src/time_rep_timespec.cc}"
internal_c="${TIME_INTERNAL_C:-$repo/internal/time_internal.c}"
mkdir -p "$(dirname "$out")"

# C flavour: include path exactly as the CMake build on Linux/x86_64/gcc.
gcc -O1 -Wall \
  -I"$repo/platform/linux" -I"$repo/platform/gcc" -I"$repo/platform/posix" \
  -I"$repo/platform/x86_64" -I"$repo/public" -I"$repo/internal" \
  "$here/gen.c" "$rep_c" "$internal_c" -o "$out"

# C++11 flavour: every source compiled as C++11 with the nsync_cpp definitions.
g++ -x c++ -std=c++11 -O1 -Wall -DNSYNC_ATOMIC_CPP11 -DNSYNC_USE_CPP11_TIMEPOINT \
  -I"$repo/platform/c++11.futex" -I"$repo/platform/c++11" \
  -I"$repo/platform/gcc" -I"$repo/platform/posix" \
  -I"$repo/platform/x86_64" -I"$repo/public" -I"$repo/internal" \
  "$here/gen.c" "$rep_cc" "$internal_c" -o "${out}_cpp" -lpthread
