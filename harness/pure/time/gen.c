/* Pure differential generator for the Time layer (property C18, arithmetic half of C15).

   Links the REAL nsync sources (see build.sh):
     C flavour    : /repo/platform/posix/src/time_rep.c + /repo/internal/time_internal.c
     C++11 flavour: /repo/platform/c++11/src/time_rep_timespec.cc + /repo/internal/time_internal.c
                    (both compiled as C++11 with -DNSYNC_USE_CPP11_TIMEPOINT -DNSYNC_ATOMIC_CPP11)
   This file compiles both as C and as C++.

   usage: gen <quick|thorough> <seed>
   One line per case, `<op> <args...> => <result of the implementation>`; last line `# cases=<n>`.
   The Lean driver (NsyncVerif.Model.TimeDriver) recomputes every result with the model.

   add/sub cases whose tv_sec computation would overflow int64 are NOT generated (undefined
   behaviour in C; the model's theorems carry the matching no-overflow hypothesis).  */

#include "nsync_cpp.h"
#include "platform.h"
#include "compiler.h"
#include "cputype.h"
#include "nsync_time.h"

#include <stdio.h>
#include <stdlib.h>
#include <string.h>
#include <stdint.h>

NSYNC_CPP_USING_

#define NS_IN_S 1000000000LL

static uint64_t rng_state;
static uint64_t rnd64 (void) {                 /* splitmix64 */
	uint64_t z = (rng_state += 0x9E3779B97F4A7C15ULL);
	z = (z ^ (z >> 30)) * 0xBF58476D1CE4E5B9ULL;
	z = (z ^ (z >> 27)) * 0x94D049BB133111EBULL;
	return (z ^ (z >> 31));
}

static unsigned long long ncases = 0;

static void show (nsync_time t) {
	printf ("%lld %lld\n", (long long) NSYNC_TIME_SEC (t), (long long) NSYNC_TIME_NSEC (t));
}

static void do_add (long long as, long long ans, long long bs, long long bns) {
	long long s;
	if (__builtin_add_overflow (as, bs, &s)) {
		return;
	}
	if (ans + bns >= NS_IN_S && __builtin_add_overflow (s, 1LL, &s)) {
		return;
	}
	printf ("add %lld %lld %lld %lld => ", as, ans, bs, bns);
	show (nsync_time_add (nsync_time_s_ns ((time_t) as, (unsigned) ans),
			      nsync_time_s_ns ((time_t) bs, (unsigned) bns)));
	ncases++;
}

static void do_sub (long long as, long long ans, long long bs, long long bns) {
	long long s;
	if (__builtin_sub_overflow (as, bs, &s)) {
		return;
	}
	if (ans < bns && __builtin_sub_overflow (s, 1LL, &s)) {
		return;
	}
	printf ("sub %lld %lld %lld %lld => ", as, ans, bs, bns);
	show (nsync_time_sub (nsync_time_s_ns ((time_t) as, (unsigned) ans),
			      nsync_time_s_ns ((time_t) bs, (unsigned) bns)));
	ncases++;
}

static void do_cmp (long long as, long long ans, long long bs, long long bns) {
	printf ("cmp %lld %lld %lld %lld => %d\n", as, ans, bs, bns,
		nsync_time_cmp (nsync_time_s_ns ((time_t) as, (unsigned) ans),
				nsync_time_s_ns ((time_t) bs, (unsigned) bns)));
	ncases++;
}

static void do_ms (unsigned x) {
	printf ("ms %u => ", x);
	show (nsync_time_ms (x));
	ncases++;
}

static void do_us (unsigned x) {
	printf ("us %u => ", x);
	show (nsync_time_us (x));
	ncases++;
}

static void do_s_ns (long long s, unsigned ns) {
	printf ("s_ns %lld %u => ", s, ns);
	show (nsync_time_s_ns ((time_t) s, ns));
	ncases++;
}

/* A random time_t: random bit-width so that small, medium and huge magnitudes all occur. */
static long long rnd_sec (void) {
	unsigned w = (unsigned) (rnd64 () % 65);      /* 0..64 significant bits */
	uint64_t v = w == 0 ? 0 : (rnd64 () >> (64 - w));
	return ((long long) v);                       /* w == 64 gives negative values too */
}

static long long rnd_sec_signed (void) {
	long long v = rnd_sec ();
	if ((rnd64 () & 1) != 0 && v != INT64_MIN) {
		v = -v;
	}
	return (v);
}

static long long rnd_nsec (void) {
	switch (rnd64 () % 8) {
	case 0: return (0);
	case 1: return (NS_IN_S - 1);
	case 2: return ((long long) (rnd64 () % 1000));
	case 3: return (NS_IN_S - 1 - (long long) (rnd64 () % 1000));
	default: return ((long long) (rnd64 () % NS_IN_S));
	}
}

int main (int argc, char **argv) {
	static const long long P31 = 2147483648LL;
	static const long long P62 = 4611686018427387904LL;
	long long secs[32];
	int nsecs_n = 0;
	static const long long nss[] = { 0, 1, 500000000LL, NS_IN_S - 1, NS_IN_S - 2 };
	static const unsigned small_grid[] = {
		0u, 1u, 2u, 999u, 1000u, 1001u, 1999u, 2000u, 999999u, 1000000u, 1000001u,
		1999999u, 2000000u, 999999999u, 1000000000u, 1000000001u,
		2147483647u, 2147483648u, 2147483649u, 4294966999u, 4294967000u, 4294967001u,
		4294000000u, 4294967294u, 4294967295u
	};
	int nnss = (int) (sizeof (nss) / sizeof (nss[0]));
	int nsmall = (int) (sizeof (small_grid) / sizeof (small_grid[0]));
	long nrand;
	int i, j, k, l;

	if (argc != 3 || (strcmp (argv[1], "quick") != 0 && strcmp (argv[1], "thorough") != 0)) {
		fprintf (stderr, "usage: %s <quick|thorough> <seed>\n", argv[0]);
		return (2);
	}
	nrand = strcmp (argv[1], "quick") == 0 ? 20000 : 1000000;
	rng_state = strtoull (argv[2], NULL, 10);

	secs[nsecs_n++] = 0;
	secs[nsecs_n++] = 1;   secs[nsecs_n++] = -1;
	secs[nsecs_n++] = 2;   secs[nsecs_n++] = -2;
	secs[nsecs_n++] = P31; secs[nsecs_n++] = -P31;
	secs[nsecs_n++] = P31 + 1; secs[nsecs_n++] = -(P31 + 1);
	secs[nsecs_n++] = P31 - 1; secs[nsecs_n++] = -(P31 - 1);
	secs[nsecs_n++] = P62; secs[nsecs_n++] = -P62;
	for (k = 0; k != 3; k++) {
		secs[nsecs_n++] = INT64_MAX - k;
		secs[nsecs_n++] = INT64_MIN + k;
	}

	/* constants */
	printf ("const zero => ");
	show (nsync_time_zero);
	ncases++;
	printf ("const no_deadline => ");
	show (nsync_time_no_deadline);
	ncases++;

	/* grid: all pairs of (seconds x nanoseconds) */
	for (i = 0; i != nsecs_n; i++) {
		for (j = 0; j != nnss; j++) {
			for (k = 0; k != nsecs_n; k++) {
				for (l = 0; l != nnss; l++) {
					do_add (secs[i], nss[j], secs[k], nss[l]);
					do_sub (secs[i], nss[j], secs[k], nss[l]);
					do_cmp (secs[i], nss[j], secs[k], nss[l]);
				}
			}
		}
	}

	/* s_ns grid (ns beyond 1e9 too: the function accepts every unsigned) */
	for (i = 0; i != nsecs_n; i++) {
		for (j = 0; j != nsmall; j++) {
			do_s_ns (secs[i], small_grid[j]);
		}
	}

	/* ms / us grid */
	for (j = 0; j != nsmall; j++) {
		do_ms (small_grid[j]);
		do_us (small_grid[j]);
	}

	/* random 32-bit arguments */
	for (i = 0; i < nrand; i++) {
		unsigned x = (unsigned) rnd64 ();
		if ((i & 3) == 0) {
			x >>= (unsigned) (rnd64 () % 32);   /* also smaller magnitudes */
		}
		do_ms (x);
		do_us (x);
		if ((i & 15) == 0) {
			do_s_ns (rnd_sec_signed (), x);
		}
	}

	/* random normalized pairs */
	for (i = 0; i < nrand; i++) {
		long long as = rnd_sec_signed ();
		long long bs = rnd_sec_signed ();
		long long ans = rnd_nsec ();
		long long bns = rnd_nsec ();
		if ((i & 7) == 0) {
			bs = as;                    /* equal seconds: exercises the nsec comparison */
		}
		if ((i & 63) == 0) {
			bns = ans;                  /* fully equal */
		}
		do_add (as, ans, bs, bns);
		do_sub (as, ans, bs, bns);
		do_cmp (as, ans, bs, bns);
	}

	printf ("# cases=%llu\n", ncases);
	return (0);
}
