#!/bin/sh
# usage: build.sh <outdir> [repo]   — builds vfh (abstract semaphores) and vfh_futex (real futex file, modelled kernel)
# from the CURRENT working tree of the repo.  Nothing is written outside <outdir>.
set -e
OUT=$1; REPO=${2:-/repo}; H=$(cd "$(dirname "$0")" && pwd)
mkdir -p "$OUT/obj" "$OUT/objf"
INC="-I$H/platform -I$REPO/public -I$REPO/internal"
CFLAGS="-O1 -g -fno-omit-frame-pointer -Wno-incompatible-pointer-types-discards-qualifiers -Wno-unused-value"
SRCS="counter cv debug dll mu mu_wait note sem_wait time_internal wait"
pids=""
for s in $SRCS; do
  clang-14 $CFLAGS -fsanitize=thread $INC -c $REPO/internal/$s.c -o $OUT/obj/$s.o &
  pids="$pids $!"
done
clang-14 $CFLAGS -fsanitize=thread $INC -c $REPO/platform/posix/src/time_rep.c -o $OUT/obj/time_rep.o & pids="$pids $!"
clang-14 $CFLAGS -fsanitize=thread $INC -c $H/rt/once_wrap.c -o $OUT/obj/once.o & pids="$pids $!"
clang-14 $CFLAGS -fsanitize=thread $INC -c $H/rt/common_wrap.c -o $OUT/obj/common.o & pids="$pids $!"
clang-14 $CFLAGS -fsanitize=thread $INC -fsyntax-only $H/rt/layout_check.c & pids="$pids $!"
clang-14 $CFLAGS -fsanitize=thread $INC -c $REPO/platform/linux/src/nsync_semaphore_futex.c -o $OUT/objf/futex.o & pids="$pids $!"
clang-14 $CFLAGS $INC -c $H/rt/vf.c -o $OUT/obj/vf.o & pids="$pids $!"
clang-14 $CFLAGS -DVF_FUTEX $INC -c $H/rt/vf.c -o $OUT/objf/vf.o & pids="$pids $!"
clang-14 $CFLAGS $INC -c $H/scen/scen.c -o $OUT/obj/scen.o & pids="$pids $!"
clang-14 $CFLAGS $INC -I$H/rt -c $H/rt/wrap.c -o $OUT/obj/wrap.o & pids="$pids $!"
for p in $pids; do wait $p; done
NS=""; for s in $SRCS time_rep once common; do NS="$NS $OUT/obj/$s.o"; done
WRAP=""; for f in nsync_mu_lock nsync_mu_unlock nsync_mu_rlock nsync_mu_runlock nsync_mu_trylock nsync_cv_signal nsync_cv_broadcast nsync_note_notify nsync_cv_wait_with_deadline nsync_mu_wait nsync_wait_n nsync_waiter_new_ nsync_waiter_free_; do WRAP="$WRAP -Wl,--wrap=$f"; done
clang-14 $WRAP -o $OUT/vfh $NS $OUT/obj/vf.o $OUT/obj/scen.o $OUT/obj/wrap.o
clang-14 $WRAP -o $OUT/vfh_futex $NS $OUT/objf/futex.o $OUT/objf/vf.o $OUT/obj/scen.o $OUT/obj/wrap.o
