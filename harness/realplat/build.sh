#!/bin/sh
# usage: build.sh <outdir> — builds probe_c and probe_cpp against the real library sources of the working tree
set -eu
out="$1"; repo="${NSYNC_REPO:-/repo}"; here="$(cd "$(dirname "$0")" && pwd)"
mkdir -p "$out"
SRC="common counter cv debug dll mu mu_wait note once sem_wait time_internal wait"
CS=""; for s in $SRC; do CS="$CS $repo/internal/$s.c"; done
gcc -O1 -g -pthread -I"$repo/platform/linux" -I"$repo/platform/gcc" -I"$repo/platform/posix" -I"$repo/platform/x86_64" \
  -I"$repo/public" -I"$repo/internal" "$here/probe.c" $CS \
  "$repo/platform/posix/src/nsync_panic.c" "$repo/platform/posix/src/per_thread_waiter.c" "$repo/platform/posix/src/time_rep.c" \
  "$repo/platform/posix/src/yield.c" "$repo/platform/linux/src/nsync_semaphore_futex.c" -o "$out/probe_c" -lpthread &
g++ -x c++ -std=c++11 -O1 -g -pthread -DNSYNC_ATOMIC_CPP11 -DNSYNC_USE_CPP11_TIMEPOINT \
  -I"$repo/platform/c++11.futex" -I"$repo/platform/c++11" -I"$repo/platform/gcc" -I"$repo/platform/posix" -I"$repo/platform/x86_64" \
  -I"$repo/public" -I"$repo/internal" "$here/probe.c" $CS \
  "$repo/platform/c++11/src/nsync_panic.cc" "$repo/platform/c++11/src/per_thread_waiter.cc" "$repo/platform/c++11/src/time_rep_timespec.cc" \
  "$repo/platform/c++11/src/yield.cc" "$repo/platform/linux/src/nsync_semaphore_futex.c" -o "$out/probe_cpp" -lpthread &
wait
test -x "$out/probe_c" && test -x "$out/probe_cpp"
