/* C15 real-platform probe: ONE timed entry point with ONE deadline value, against the real library
   (real futex, real kernel, real threads).  The parent (./check) runs it in a child process with a
   timeout and classifies signal / hang; this program classifies what it can see itself.
   usage: probe <entry> <dlkind>
   prints: c15 <entry> <sec> <nsec> <now_sec> <now_nsec> <event-scheduled 0|1> => <class> <elapsed_ms>
   (the part up to `=>` is printed and flushed BEFORE the call, so a crash or hang still identifies the case)
   class: timeout_prompt | timeout_at | timeout_early | event | wrong:<what> */
#include "nsync.h"
#include <stdio.h>
#include <stdlib.h>
#include <string.h>
#include <errno.h>
#include <limits.h>
#include <pthread.h>
#include <unistd.h>
#include <time.h>

#ifdef __cplusplus
using namespace nsync;
#endif

static nsync_mu mu; static nsync_cv cv; static int flag; static nsync_note note; static nsync_counter ctr;
static const char *entry;

static int cond_flag (const void *v) { return (*(const int *) v != 0); }

static void *helper (void *a) {
	(void) a;
	usleep (150 * 1000);
	if (strncmp (entry, "cv_wait", 7) == 0) { nsync_mu_lock (&mu); flag = 1; nsync_cv_broadcast (&cv); nsync_mu_unlock (&mu); }
	else if (strncmp (entry, "mu_wait", 7) == 0) { nsync_mu_lock (&mu); flag = 1; nsync_mu_unlock (&mu); }
	else if (strcmp (entry, "counter_wait") == 0 || strcmp (entry, "wait_n_counter") == 0) { nsync_counter_add (ctr, -1); }
	else { nsync_note_notify (note); }
	return (NULL);
}

int main (int argc, char **argv) {
	nsync_time d, now, t0, t1; const char *k; int res = -99; long el; const char *cls; pthread_t th; int want_event = 0;
	nsync_note cancel = NULL;
	if (argc < 3) { return (2); }
	entry = argv[1]; k = argv[2];
	now = nsync_time_now ();
	if (strcmp (k, "zero") == 0) { d = nsync_time_zero; }
	else if (strcmp (k, "plus1ns") == 0) { d = nsync_time_s_ns (0, 1); }
	else if (strcmp (k, "minus1ns") == 0) { d = nsync_time_s_ns (-1, 999999999); }
	else if (strcmp (k, "plus1s") == 0) { d = nsync_time_s_ns (1, 0); }
	else if (strcmp (k, "minus1s") == 0) { d = nsync_time_s_ns (-1, 0); }
	else if (strcmp (k, "bigneg") == 0) { d = nsync_time_s_ns ((time_t) -4000000000ll, 0); }
	else if (strcmp (k, "nowminus") == 0) { d = nsync_time_sub (now, nsync_time_ms (1000)); }
	else if (strcmp (k, "nowplus") == 0) { d = nsync_time_add (now, nsync_time_ms (300)); }
	else if (strcmp (k, "maxm1") == 0) { d = nsync_time_no_deadline; d.tv_nsec -= 1; want_event = 1; }
	else if (strcmp (k, "nodeadline") == 0) { d = nsync_time_no_deadline; want_event = 1; }
	else { return (2); }
	nsync_mu_init (&mu); nsync_cv_init (&cv);
	note = nsync_note_new (NULL, nsync_time_no_deadline);
	ctr = nsync_counter_new (1);
	if (strstr (entry, "_cancel") != NULL) { cancel = nsync_note_new (NULL, nsync_time_no_deadline); }
	if (want_event) { pthread_create (&th, NULL, &helper, NULL); }
	printf ("c15 %s %lld %ld %lld %ld %d =>", entry, (long long) NSYNC_TIME_SEC (d), (long) NSYNC_TIME_NSEC (d),
		(long long) NSYNC_TIME_SEC (now), (long) NSYNC_TIME_NSEC (now), want_event);
	fflush (stdout);
	t0 = nsync_time_now ();
	if (strncmp (entry, "cv_wait", 7) == 0) {
		nsync_mu_lock (&mu);
		res = 0;
		while (!flag && res == 0) { res = nsync_cv_wait_with_deadline (&cv, &mu, d, cancel); }
		nsync_mu_unlock (&mu);
	} else if (strncmp (entry, "mu_wait", 7) == 0) {
		nsync_mu_lock (&mu);
		res = nsync_mu_wait_with_deadline (&mu, &cond_flag, &flag, NULL, d, cancel);
		nsync_mu_unlock (&mu);
	} else if (strcmp (entry, "note_wait") == 0) {
		res = nsync_note_wait (note, d) ? 0 : ETIMEDOUT;
	} else if (strcmp (entry, "counter_wait") == 0) {
		res = nsync_counter_wait (ctr, d) == 0 ? 0 : ETIMEDOUT;
	} else if (strcmp (entry, "wait_n_note") == 0 || strcmp (entry, "wait_n_counter") == 0) {
		struct nsync_waitable_s w; struct nsync_waitable_s *pw = &w; int r;
		if (strcmp (entry, "wait_n_note") == 0) { w.v = note; w.funcs = &nsync_note_waitable_funcs; } else { w.v = ctr; w.funcs = &nsync_counter_waitable_funcs; }
		r = nsync_wait_n (NULL, NULL, NULL, d, 1, &pw);
		res = r == 0 ? 0 : ETIMEDOUT;
	} else { return (2); }
	t1 = nsync_time_now ();
	el = (long) ((NSYNC_TIME_SEC (t1) - NSYNC_TIME_SEC (t0)) * 1000 + (NSYNC_TIME_NSEC (t1) - NSYNC_TIME_NSEC (t0)) / 1000000);
	if (res == 0) { cls = "event"; }
	else if (res == ETIMEDOUT) {
		if (nsync_time_cmp (d, t1) > 0) { cls = "timeout_early"; }
		else if (nsync_time_cmp (d, now) <= 0) { cls = el < 1000 ? "timeout_prompt" : "wrong:slow_timeout"; }
		else { cls = "timeout_at"; }
	} else { cls = "wrong:result"; }
	printf (" %s %ld\n", cls, el);
	fflush (stdout);
	if (want_event) { pthread_join (th, NULL); }
	return (0);
}
