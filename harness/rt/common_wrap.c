/* Wrapper translation unit: compiles /repo/internal/common.c unchanged and adds an accessor for
   the file-static spinlock of the waiter free pool so that the harness can name it. */
#include "common.c"
void *vf_pool_mu_addr (void) { return ((void *) &free_waiters_mu); }
