/* Compile-time check that the harness's replica of counter.c's private struct matches. */
#include "counter.c"
struct vf_counter_layout { nsync_atomic_uint32_ waited; nsync_mu counter_mu; nsync_atomic_uint32_ value; struct nsync_dll_element_s_ *waiters; };
typedef char vf_counter_size_ok[sizeof (struct vf_counter_layout) == sizeof (struct nsync_counter_s_) ? 1 : -1];
typedef char vf_counter_value_ok[offsetof (struct vf_counter_layout, value) == offsetof (struct nsync_counter_s_, value) ? 1 : -1];
typedef char vf_counter_mu_ok[offsetof (struct vf_counter_layout, counter_mu) == offsetof (struct nsync_counter_s_, counter_mu) ? 1 : -1];
