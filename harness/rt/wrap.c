/* Link-time wrappers (-Wl,--wrap=…) around the public entry points that nsync's own code calls
   across translation units (once.c → mu.c, note.c → mu.c, cv.c → mu.c, …).  They log the NESTED
   API boundaries (`ncall` / `nret`) so that the layered acceptors can treat an inner mutex or cv as
   a black box.  The scenario interpreter calls the __real_ functions directly, so every wrapper
   invocation is a nested one.  Nothing in /repo is edited. */
#include "nsync_cpp.h"
#include "platform.h"
#include "compiler.h"
#include "cputype.h"
#include "nsync.h"
#include "dll.h"
#include "sem.h"
#include "wait_internal.h"
#include "common.h"
#include "atomic.h"
#undef malloc
#undef free
#undef clock_gettime
#undef syscall
#include "vf.h"

const char *vf_objname (const void *p, char *buf, size_t n);
int64_t vf_time_ns (nsync_time t);
static const char *dl (nsync_time t, char *b, size_t n) {
	int64_t d = vf_time_ns (t);
	if (d == INT64_MAX) { snprintf (b, n, "inf"); } else { snprintf (b, n, "%lld", (long long) d); }
	return (b);
}
#define NM(p_) vf_objname ((p_), nb, sizeof (nb))

#define WRAP_VOID1(fn_, T_) \
	void __real_##fn_ (T_ a); \
	void __wrap_##fn_ (T_ a) { char nb[64]; vf_log ("ncall " #fn_ " %s", NM (a)); __real_##fn_ (a); vf_log ("nret " #fn_ " -"); }

WRAP_VOID1 (nsync_mu_lock, nsync_mu *)
WRAP_VOID1 (nsync_mu_unlock, nsync_mu *)
WRAP_VOID1 (nsync_mu_rlock, nsync_mu *)
WRAP_VOID1 (nsync_mu_runlock, nsync_mu *)
WRAP_VOID1 (nsync_cv_signal, nsync_cv *)
WRAP_VOID1 (nsync_cv_broadcast, nsync_cv *)
WRAP_VOID1 (nsync_note_notify, nsync_note)

int __real_nsync_mu_trylock (nsync_mu *mu);
int __wrap_nsync_mu_trylock (nsync_mu *mu) {
	char nb[64]; int r;
	vf_log ("ncall nsync_mu_trylock %s", NM (mu)); r = __real_nsync_mu_trylock (mu); vf_log ("nret nsync_mu_trylock %d", r);
	return (r);
}
int __real_nsync_cv_wait_with_deadline (nsync_cv *cv, nsync_mu *mu, nsync_time d, nsync_note n);
int __wrap_nsync_cv_wait_with_deadline (nsync_cv *cv, nsync_mu *mu, nsync_time d, nsync_note n) {
	char nb[64], nb2[64], db[32]; int r;
	vf_log ("ncall nsync_cv_wait_with_deadline %s %s %s %s", vf_objname (cv, nb2, sizeof (nb2)), NM (mu), dl (d, db, sizeof (db)), n ? "note" : "-");
	r = __real_nsync_cv_wait_with_deadline (cv, mu, d, n);
	vf_log ("nret nsync_cv_wait_with_deadline %s", r == 0 ? "0" : r == ETIMEDOUT ? "ETIMEDOUT" : "ECANCELED");
	return (r);
}
void __real_nsync_mu_wait (nsync_mu *mu, int (*c) (const void *), const void *a, int (*eq) (const void *, const void *));
void __wrap_nsync_mu_wait (nsync_mu *mu, int (*c) (const void *), const void *a, int (*eq) (const void *, const void *)) {
	char nb[64];
	vf_log ("ncall nsync_mu_wait %s", NM (mu)); __real_nsync_mu_wait (mu, c, a, eq); vf_log ("nret nsync_mu_wait -");
}
int __real_nsync_wait_n (void *mu, void (*lock) (void *), void (*unlock) (void *), nsync_time d, int count, struct nsync_waitable_s *w[]);
int __wrap_nsync_wait_n (void *mu, void (*lock) (void *), void (*unlock) (void *), nsync_time d, int count, struct nsync_waitable_s *w[]) {
	char db[32]; int r;
	vf_log ("ncall nsync_wait_n %s %s %d", mu ? "mu" : "-", dl (d, db, sizeof (db)), count);
	r = __real_nsync_wait_n (mu, lock, unlock, d, count, w);
	vf_log ("nret nsync_wait_n %d", r);
	return (r);
}
/* the waiter pool (common.c): which struct nsync_waiter_new_ hands out and which one comes back — the fast path of `new`
   and the reserved path of `free` perform no atomic operation and would otherwise be invisible (Pool layer) */
waiter *__real_nsync_waiter_new_ (void);
waiter *__wrap_nsync_waiter_new_ (void) { char nb[64]; waiter *w;
	vf_log ("ncall nsync_waiter_new_"); w = __real_nsync_waiter_new_ (); vf_log ("nret nsync_waiter_new_ %s", NM (w)); return (w); }
void __real_nsync_waiter_free_ (waiter *w);
void __wrap_nsync_waiter_free_ (waiter *w) { char nb[64];
	vf_log ("ncall nsync_waiter_free_ %s", NM (w)); __real_nsync_waiter_free_ (w); vf_log ("nret nsync_waiter_free_ -"); }
