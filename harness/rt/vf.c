/* Harness runtime.  See vf.h.  Single OS thread; nsync "threads" are ucontext fibers; every
   atomic operation, semaphore operation and yield of the library is a scheduling point. */
#include "nsync_cpp.h"
#include "platform.h"
#include "compiler.h"
#include "cputype.h"
#include "nsync.h"
#include "dll.h"
#include "sem.h"
#include "wait_internal.h"
#include "common.h"
#include "atomic.h"
#undef malloc
#undef free
#undef clock_gettime
#undef syscall
#include <ucontext.h>
#include <sys/mman.h>
#include <signal.h>
#include <stdarg.h>
#include "vf.h"

/* ------------------------------------------------------------------ config / prng */
static struct vf_config cfg;
static uint64_t prng;
uint64_t vf_rand (void) {
	prng ^= prng << 13; prng ^= prng >> 7; prng ^= prng << 17;
	return (prng);
}
/* a second stream, for the plain-access scheduling points only: it depends on the seed and on how many plain writes
   have happened, not on the scheduler's choices, so a recorded schedule (`sched=`) replays with the same points */
static uint64_t prng2;
static uint64_t ps_rand (void) {
	prng2 ^= prng2 << 13; prng2 ^= prng2 >> 7; prng2 ^= prng2 << 17;
	return (prng2);
}

/* ------------------------------------------------------------------ log */
static char *logbuf; static size_t loglen, logcap;
static void log_append (const char *s, size_t n) {
	if (loglen + n + 1 > logcap) {
		logcap = (logcap + n + 1) * 2;
		logbuf = (char *) realloc (logbuf, logcap);
	}
	memcpy (logbuf + loglen, s, n); loglen += n; logbuf[loglen] = 0;
}
static void vlogf (int tid, const char *fmt, va_list ap) {
	char line[512]; int n;
	if (tid >= 0) { n = snprintf (line, sizeof (line), "%d ", tid); } else { n = snprintf (line, sizeof (line), "- "); }
	n += vsnprintf (line + n, sizeof (line) - n - 2, fmt, ap);
	if (n > (int) sizeof (line) - 2) { n = sizeof (line) - 2; }
	line[n++] = '\n';
	log_append (line, n);
}
/* set-up code that runs before the fibers start is logged as thread 99 */
static int log_tid (void);
void vf_log (const char *fmt, ...) { va_list ap; va_start (ap, fmt); vlogf (log_tid (), fmt, ap); va_end (ap); }
void vf_log_env (const char *fmt, ...) { va_list ap; va_start (ap, fmt); vlogf (-1, fmt, ap); va_end (ap); }
void vf_flush_log (FILE *out) { if (loglen) { fwrite (logbuf, 1, loglen, out); } fflush (out); }

/* ------------------------------------------------------------------ violations */
static char violation[600];
void vf_violation (const char *oracle, const char *fmt, ...) {
	if (violation[0] == 0) {
		va_list ap; int n = snprintf (violation, sizeof (violation), "%s: ", oracle);
		va_start (ap, fmt); vsnprintf (violation + n, sizeof (violation) - n, fmt, ap); va_end (ap);
		vf_log ("oracle %s", violation);
	}
}
const char *vf_violation_text (void) { return (violation[0] ? violation : NULL); }

/* ------------------------------------------------------------------ arena */
static char *arena; static size_t arena_off; static const size_t ARENA_SIZE = 64u << 20;
void *vf_arena_alloc (size_t n) {
	void *p;
	if (arena == NULL) {
		arena = (char *) mmap (NULL, ARENA_SIZE, PROT_READ | PROT_WRITE, MAP_PRIVATE | MAP_ANONYMOUS, -1, 0);
	}
	n = (n + 63) & ~(size_t) 63;
	if (arena_off + n + 64 > ARENA_SIZE) { fprintf (stderr, "vf: arena exhausted\n"); _exit (99); }
	arena_off += 64; /* red zone */
	p = arena + arena_off; arena_off += n;
	memset (p, 0xcd, n);
	return (p);
}

/* ------------------------------------------------------------------ registry */
struct obj { const char *base; size_t size; int kind; int idx; int live; int owner; long owner_call; char name[40]; int unl; };
static struct obj objs[4096]; static int nobjs;
static int kind_count[16];
int vf_next_index (int kind) { return (kind_count[kind]++); }

/* layout of the counter (private to counter.c; replicated here, checked by the build script) */
struct vf_counter_layout { nsync_atomic_uint32_ waited; nsync_mu counter_mu; nsync_atomic_uint32_ value; struct nsync_dll_element_s_ *waiters; };
struct vf_oncesync_layout { nsync_mu once_mu; nsync_cv once_cv; };
/* value of a counter read without a scheduling point or a log line (oracles only) */
uint32_t vf_counter_peek (const void *c) { return (*(volatile uint32_t *) &((struct vf_counter_layout *) c)->value); }

static struct obj *find_obj (const void *p) {
	int i;
	for (i = nobjs - 1; i >= 0; i--) {
		if ((const char *) p >= objs[i].base && (const char *) p < objs[i].base + objs[i].size) { return (&objs[i]); }
	}
	return (NULL);
}
static void set_name (struct obj *o) {
	static const char *pre[] = { "?", "mu", "cv", "w", "nw", "note", "ctr", "once", "oncesync", "pool", "var", "nwarr", "sem" };
	if (o->kind == K_POOL) { snprintf (o->name, sizeof (o->name), "pool"); }
	else { snprintf (o->name, sizeof (o->name), "%s%d", pre[o->kind], o->idx); }
}
static struct obj *reg_obj (const void *p, size_t size, int kind, int idx) {
	struct obj *o;
	if (nobjs == (int) (sizeof (objs) / sizeof (objs[0]))) { fprintf (stderr, "vf: registry full\n"); _exit (99); }
	o = &objs[nobjs++];
	o->base = (const char *) p; o->size = size; o->kind = kind; o->idx = idx; o->live = 1; o->owner = -1; o->owner_call = 0;
	set_name (o);
	return (o);
}
void vf_reg (const void *p, size_t size, int kind, int idx) { reg_obj (p, size, kind, idx); }
void vf_kill (const void *p) { struct obj *o = find_obj (p); if (o != NULL) { o->live = 0; } }
const char *vf_name_of (const void *p) { struct obj *o = find_obj (p); return (o != NULL ? o->name : NULL); }

/* ------------------------------------------------------------------ fibers */
enum fstate { F_READY, F_BLOCKED_SEM, F_PARKED, F_BLOCKED_FUTEX, F_DONE, F_WAIT_FIBER };
struct fiber {
	ucontext_t ctx; char *stack; size_t stack_size;
	enum fstate st;
	void (*fn) (void *); void *arg;
	nsync_semaphore *sem; int64_t deadline; int sem_result; /* BLOCKED_SEM */
	long park_epoch; int quiet_ops; long seen_epoch;
	void *ptw; void (*ptw_dest) (void *);
	long call_seq; int in_api;
	int prio; int wait_on; /* F_WAIT_FIBER: runnable once fiber wait_on is asleep */
	const volatile uint32_t *pend_wait; /* about to load its `waiting` flag in the wait loop of nsync_mu_lock_slow_ */
	int retry_loads; /* atomic loads performed inside mu_try_acquire_after_timeout_or_cancel since vf_retry_loads_reset */
	int log_alias; /* > 0: log this fiber's events under this thread id (a call made from inside a client callback is shown to the acceptors as another thread's call) */
	/* futex */
	int *fut_addr; int fut_woken; int fut_result; int fut_fault;
};
#define MAXF 16
static struct fiber fibers[MAXF]; static int nfibers; static int cur = -1;
static ucontext_t sched_ctx;
static int early_round = 1;
static long write_epoch; static long steps;
static int64_t now_ns;
static int sched_rec[1 << 17]; static int sched_len;
static int script_pos;
static const size_t STACK_SIZE = 256 * 1024;
#define INF_NS INT64_MAX

int vf_self (void) { return (cur); }
int vf_retry_loads (int k) { return (k >= 0 && k < nfibers ? fibers[k].retry_loads : 0); }
void vf_retry_loads_reset (void) { if (cur >= 0) { fibers[cur].retry_loads = 0; } }
static int log_tid (void) { return (cur < 0 ? 99 : fibers[cur].log_alias > 0 ? fibers[cur].log_alias : cur); }
void vf_log_alias (int tid) { if (cur >= 0) { fibers[cur].log_alias = tid; } }
int64_t vf_now (void) { return (now_ns); }
long vf_steps (void) { return (steps); }
int vf_plain_sched (void) { return (cfg.plain_sched); }
/* is fiber k asleep on a semaphore / futex (or finished)?  used by scenario ops that order set-up deterministically */
int vf_fiber_blocked (int k);
void vf_wait_fiber_blocked (int k);
const int *vf_schedule (int *len) { *len = sched_len; return (sched_rec); }

static void fiber_main (void) {
	struct fiber *f = &fibers[cur];
	(*f->fn) (f->arg);
	if (cfg.thread_exit && f->ptw != NULL && f->ptw_dest != NULL) { /* the thread ends: its key destructor hands the waiter to the pool */
		void *w = f->ptw; f->ptw = NULL;
		(*f->ptw_dest) (w);
	}
	f->st = F_DONE; write_epoch++;
	swapcontext (&f->ctx, &sched_ctx);
}
int vf_spawn (void (*fn) (void *), void *arg) {
	struct fiber *f = &fibers[nfibers];
	memset (f, 0, sizeof (*f));
	f->stack_size = STACK_SIZE;
	f->stack = (char *) mmap (NULL, STACK_SIZE, PROT_READ | PROT_WRITE, MAP_PRIVATE | MAP_ANONYMOUS, -1, 0);
	/* poison the part of the stack the library will use: an uninitialised local (e.g. an out-parameter that a failed
	   posix_memalign leaves untouched) then holds a wild pointer instead of a convenient zero */
	if (f->stack != (char *) MAP_FAILED) { size_t top = STACK_SIZE > (64u << 10) ? (64u << 10) : STACK_SIZE; memset (f->stack + STACK_SIZE - top, 0xA5, top); }
	getcontext (&f->ctx);
	f->ctx.uc_stack.ss_sp = f->stack; f->ctx.uc_stack.ss_size = STACK_SIZE; f->ctx.uc_link = NULL;
	makecontext (&f->ctx, fiber_main, 0);
	f->fn = fn; f->arg = arg; f->st = F_READY; f->prio = (int) (vf_rand () % 1000) + 1000;
	return (nfibers++);
}
static void yield_to_sched (void) { struct fiber *f = &fibers[cur]; swapcontext (&f->ctx, &sched_ctx); }

/* sem count lives in the first word of the nsync_semaphore */
static uint32_t *sem_count (nsync_semaphore *s) { return ((uint32_t *) s); }
int vf_sem_value (nsync_semaphore *s) { return ((int) *(volatile uint32_t *) s); } /* both builds keep the count in the first word */
static const char *sem_name (nsync_semaphore *s);

static int runnable (struct fiber *f) {
	switch (f->st) {
	case F_READY: return (1);
	case F_BLOCKED_SEM: return (*sem_count (f->sem) > 0 || f->deadline <= now_ns);
	case F_PARKED: return (f->park_epoch != write_epoch);
	case F_WAIT_FIBER: return (f->wait_on >= 1000 ? (f->wait_on - 1000 >= nfibers || fibers[f->wait_on - 1000].st == F_DONE) : vf_fiber_blocked (f->wait_on));
	case F_BLOCKED_FUTEX: return (f->fut_woken || f->fut_fault != 0 || (f->deadline != INF_NS && f->deadline <= now_ns));
	default: return (0);
	}
}
/* is fiber k really asleep (blocked and not yet made runnable by a post / an expired deadline), or finished?  used by
   scenario ops that order set-up deterministically */
int vf_fiber_blocked (int k) { return (k >= 0 && k < nfibers && (fibers[k].st == F_DONE || ((fibers[k].st == F_BLOCKED_SEM || fibers[k].st == F_BLOCKED_FUTEX) && !runnable (&fibers[k])))); }
/* scenario op `after_blocked k`: the calling fiber is not schedulable until fiber k sleeps (or is done) — a real block,
   so that an unfair scheduling strategy cannot burn the step budget on it */
void vf_wait_fiber_blocked (int k) {   /* k >= 1000: wait until fiber k - 1000 is DONE (scenario op `after_done`) */
	if (k >= 1000) { if (cur < 0 || k - 1000 >= nfibers || k - 1000 == cur || fibers[k - 1000].st == F_DONE) { return; } }
	else {
	if (cur < 0 || k < 0 || k >= nfibers || k == cur) { return; }
	if (vf_fiber_blocked (k)) { return; }
	}
	fibers[cur].st = F_WAIT_FIBER; fibers[cur].wait_on = k;
	yield_to_sched ();
	fibers[cur].st = F_READY;
}
static void tick_to (int64_t t) {
	if (t > now_ns) { now_ns = t; write_epoch++; vf_log_env ("tick %lld", (long long) t); if (sched_len < (int) (sizeof (sched_rec) / sizeof (sched_rec[0]))) { sched_rec[sched_len++] = -1; } }
}
/* scenario op `advance <ns>`: move the virtual clock forward as part of the program (not a scheduler choice: not recorded) */
void vf_advance (int64_t ns) { if (ns > 0) { now_ns += ns; write_epoch++; vf_log_env ("tick %lld", (long long) now_ns); } }
static int pct_points[8]; static int pct_n; static int consec;
/* strategy 4 (adversarial barging, C14): fiber 0 is the victim; it is scheduled only while the hook says the
   mutex is held by somebody else (so that every retry of the victim loses the race), or when nobody else can run */
int (*vf_victim_may_run_hook) (void);
int (*vf_lazy_release_hook) (void);
void (*vf_sem_sleep_hook) (int tid);
void (*vf_requeue_hook) (int tid); /* a thread marks its waiter record `waiting` inside nsync_mu_lock_slow_: one more lost race */

int vf_run (void) {
	int i;
	for (;;) {
		int run[MAXF]; int nrun = 0; int alldone = 1; int pick = -1;
		int64_t min_deadline = INF_NS; int n_timed = 0;
		for (i = 0; i != nfibers; i++) {
			struct fiber *f = &fibers[i];
			if (f->st != F_DONE) { alldone = 0; }
			if ((f->st == F_BLOCKED_SEM || f->st == F_BLOCKED_FUTEX) && f->deadline != INF_NS && f->deadline > now_ns) {
				n_timed++; if (f->deadline < min_deadline) { min_deadline = f->deadline; }
			}
		}
		if (alldone) { return (violation[0] ? VF_ORACLE : VF_OK); }
		if (violation[0]) { return (VF_ORACLE); }
		/* environment choice: let a pending deadline expire now */
		if (cfg.script != NULL) {
			if (script_pos < cfg.script_len && cfg.script[script_pos] < 0) {
				script_pos++;
				if (n_timed == 0) { return (VF_SCRIPT_DIVERGED); }
				tick_to (min_deadline);
				continue;
			}
		} else if (n_timed != 0 && (int) (vf_rand () % 1000) < cfg.tick_prob) {
			tick_to (min_deadline);
			continue;
		}
		for (i = 0; i != nfibers; i++) { if (runnable (&fibers[i])) { run[nrun++] = i; } }
		if (nrun == 0) {
			if (n_timed != 0 && (cfg.script == NULL || script_pos >= cfg.script_len)) { tick_to (min_deadline); continue; }
			return (cfg.script != NULL && script_pos < cfg.script_len ? VF_SCRIPT_DIVERGED : VF_STUCK);
		}
		if (++steps > cfg.step_limit) {
			/* PCT and the adversarial strategy are unfair by design: before calling it a livelock give the
			   execution the same budget again under the fair (uniform random) scheduler */
			if (cfg.strategy >= 3 && (cfg.script == NULL || script_pos >= cfg.script_len)) { cfg.strategy = 0; cfg.step_limit *= 2; vf_log_env ("fair-continuation"); }
			else { return (VF_STEPLIMIT); }
		}
		if (cfg.script != NULL && script_pos < cfg.script_len) {
			pick = cfg.script[script_pos++];
			if (pick >= nfibers || !runnable (&fibers[pick])) { return (VF_SCRIPT_DIVERGED); }
		} else if (cfg.strategy == 3) {
			int best = -1;
			for (i = 0; i != pct_n; i++) { if (pct_points[i] == steps && cur >= 0) { fibers[cur].prio = pct_n - i; } }
			for (i = 0; i != nrun; i++) { if (best < 0 || fibers[run[i]].prio > fibers[best].prio) { best = run[i]; } }
			pick = best;
			/* a spinning high-priority fiber must not starve the others: demote it after a long run */
			if (pick == cur) { consec++; } else { consec = 0; }
			if (nrun > 1 && (fibers[pick].quiet_ops > 6 || consec > 60)) { fibers[pick].prio = 0; consec = 0; } /* below every change-point priority */
		} else if (cfg.strategy == 4 || cfg.strategy == 5 || cfg.strategy == 6) {
			int others[MAXF]; int no = 0; int v_ok = 0; int lazy = -1;
			for (i = 0; i != nrun; i++) {
				if (run[i] == 0) { v_ok = 1; }
				/* strategy 6 = 4 plus a LATE LOOKER: fiber 1, once posted while asleep in a semaphore, stays parked there
				   (as a descheduled thread would) until the hook says so (MU_LONG_WAIT published) or nobody else can run */
				else if (cfg.strategy == 6 && run[i] == 1 && fibers[1].st == F_BLOCKED_SEM &&
					 !(vf_lazy_release_hook != NULL && (*vf_lazy_release_hook) ())) { lazy = 1; }
				else { others[no++] = run[i]; }
			}
			if (no == 0 && !v_ok && lazy >= 0) { others[no++] = lazy; }
			/* strategy 5 = 4 plus EARLY WAKE-UPS: the victim, queued and about to read its `waiting` flag for the
			   first time, is held back until an unlocker has dequeued and woken it, so it never reaches the
			   semaphore wait in that round (the flag is already clear and the post is left pending) */
			if (cfg.strategy == 5 && v_ok && no != 0 && fibers[0].pend_wait != NULL && *fibers[0].pend_wait != 0 && early_round) { v_ok = 0; }
			if (cfg.strategy == 5 && fibers[0].pend_wait == NULL) { early_round = (vf_rand () % 3) != 0; }
			if (v_ok && (no == 0 || (vf_victim_may_run_hook != NULL && (*vf_victim_may_run_hook) ()))) { pick = 0; }
			else if (no != 0) {
				if (cur > 0 && runnable (&fibers[cur]) && (vf_rand () % 4) != 0) { pick = cur; } else { pick = others[vf_rand () % no]; }
			} else { pick = run[0]; }
		} else {
			int stick = cfg.strategy == 1 ? 4 : cfg.strategy == 2 ? 16 : 1;
			if (cur >= 0 && runnable (&fibers[cur]) && (vf_rand () % stick) != 0) { pick = cur; }
			else { pick = run[vf_rand () % nrun]; }
		}
		if (sched_len < (int) (sizeof (sched_rec) / sizeof (sched_rec[0]))) { sched_rec[sched_len++] = pick; }
		cur = pick;
		swapcontext (&sched_ctx, &fibers[pick].ctx);
	}
}

/* a scheduling point of the current fiber */
static void sched_point (void) {
	if (cur < 0) { return; } /* called outside any fiber (set-up code): run straight through */
	fibers[cur].st = F_READY;
	yield_to_sched ();
}

/* ------------------------------------------------------------------ naming of atomic locations */
static const char *ordname[] = { "rlx", "acq", "rel", "ar" };

static int has (const char *s, const char *sub) { return (strstr (s, sub) != NULL); }

/* Resolve the address of an atomic word to a logical location name; registers library-internal
   objects (pool lock, once_sync slots, stack waiter records) on first sight, using the source text of
   the macro argument to know what kind of object the word belongs to. */
static const char *loc_name (const void *p, const char *func, const char *expr, char *buf, size_t n) {
	struct obj *o = find_obj (p);
	size_t off;
	if (o != NULL && o->kind == K_NW && !o->live && o->owner == cur && fibers[cur].call_seq != o->owner_call) {
		o = NULL; /* a new call of the owner reuses the stack slot: fresh record */
	}
	if (o == NULL) {
		if (has (expr, "free_waiters_mu")) { o = reg_obj (p, 4, K_POOL, 0); }
		else if (has (expr, "waiting")) {
			/* an nsync_waiter_s that is not embedded in a registered waiter: a stack (or heap array) record */
			const char *base = (const char *) p - offsetof (struct nsync_waiter_s, waiting);
			o = reg_obj (base, sizeof (struct nsync_waiter_s), K_NW, vf_next_index (K_NW));
			o->owner = cur; o->owner_call = cur >= 0 ? fibers[cur].call_seq : 0;
		} else if (has (expr, "->word") && (has (expr, "mu->word") || has (func, "nsync_mu_"))) {
			o = reg_obj (p, sizeof (nsync_mu), K_MU, vf_next_index (K_MU));
		} else if (has (expr, "cv->word")) {
			o = reg_obj (p, sizeof (nsync_cv), K_CV, vf_next_index (K_CV));
		} else if (has (func, "nsync_run_once") || has (func, "do_once")) {
			o = reg_obj (p, 4, K_ONCE, vf_next_index (K_ONCE));
		} else {
			snprintf (buf, n, "anon%lx", (unsigned long) ((const char *) p - arena));
			return (buf);
		}
	}
	if (!o->live) {
		vf_violation ("dead-object", "atomic access to reclaimed object %s in %s (%s)", o->name, func, expr);
	}
	off = (const char *) p - o->base;
	switch (o->kind) {
	case K_MU: case K_CV: snprintf (buf, n, "%s.word", o->name); break;
	case K_WAITER:
		if (off == offsetof (waiter, nw) + offsetof (struct nsync_waiter_s, waiting)) { snprintf (buf, n, "%s.waiting", o->name); }
		else if (off == offsetof (waiter, remove_count)) { snprintf (buf, n, "%s.remove_count", o->name); }
		else if (off == offsetof (waiter, sem)) { snprintf (buf, n, "sem%d.i", o->idx); }
		else { snprintf (buf, n, "%s+%zu", o->name, off); }
		break;
	case K_NW: snprintf (buf, n, "%s.waiting", o->name); break;
	case K_NWARR: {
		size_t k = off / sizeof (struct nsync_waiter_s);
		snprintf (buf, n, "%s_%zu.waiting", o->name, k);
		break; }
	case K_NOTE:
		if (off == offsetof (struct nsync_note_s_, notified)) { snprintf (buf, n, "%s.notified", o->name); }
		else if (off == offsetof (struct nsync_note_s_, note_mu)) { snprintf (buf, n, "%s.mu.word", o->name); }
		else if (off == offsetof (struct nsync_note_s_, no_children_cv)) { snprintf (buf, n, "%s.cv.word", o->name); }
		else { snprintf (buf, n, "%s+%zu", o->name, off); }
		break;
	case K_CTR:
		if (off == offsetof (struct vf_counter_layout, value)) { snprintf (buf, n, "%s.value", o->name); }
		else if (off == offsetof (struct vf_counter_layout, waited)) { snprintf (buf, n, "%s.waited", o->name); }
		else if (off == offsetof (struct vf_counter_layout, counter_mu)) { snprintf (buf, n, "%s.mu.word", o->name); }
		else { snprintf (buf, n, "%s+%zu", o->name, off); }
		break;
	case K_ONCESYNC:
		if (off == offsetof (struct vf_oncesync_layout, once_mu)) { snprintf (buf, n, "%s.mu.word", o->name); }
		else { snprintf (buf, n, "%s.cv.word", o->name); }
		break;
	case K_ONCE: snprintf (buf, n, "%s", o->name); break;
	case K_SEM: snprintf (buf, n, "%s.i", o->name); break;
	case K_POOL: snprintf (buf, n, "pool.mu"); break;
	default: snprintf (buf, n, "%s+%zu", o->name, off); break;
	}
	return (buf);
}

/* name of a sub-object (mutex, cv, note, counter) given a pointer to it: the location name of its
   first word without the trailing field */
const char *vf_objname (const void *p, char *buf, size_t n) {
	struct obj *o = find_obj (p); size_t l;
	if (o == NULL) { snprintf (buf, n, "anon"); return (buf); }
	if ((const char *) p == o->base && (o->kind == K_NOTE || o->kind == K_CTR || o->kind == K_WAITER)) { snprintf (buf, n, "%s", o->name); return (buf); }
	loc_name (p, "", "", buf, n);
	l = strlen (buf);
	if (l > 5 && strcmp (buf + l - 5, ".word") == 0) { buf[l - 5] = 0; }
	return (buf);
}
static int64_t time_to_ns (nsync_time t);
int64_t vf_time_ns (nsync_time t) { return (time_to_ns (t)); }

static void note_op (int wrote) {
	struct fiber *f;
	if (cur < 0) { return; }
	f = &fibers[cur];
	if (wrote) { write_epoch++; f->quiet_ops = 0; f->park_epoch = -1; }
	else {
		/* count only operations that re-read a world nobody has written since the previous one */
		if (f->seen_epoch != write_epoch) { f->quiet_ops = 0; f->seen_epoch = write_epoch; }
		f->quiet_ops++;
	}
}

/* ------------------------------------------------------------------ atomic operations */
uint32_t vf_load (const nsync_atomic_uint32_ *p, int ord, const char *file, int k, const char *func, const char *expr) {
	char lb[64]; uint32_t v; long e0;
	if (cur >= 0 && has (func, "mu_try_acquire_after_timeout_or_cancel")) { fibers[cur].retry_loads++; } /* loads of the word in the re-acquisition spin of a timed-out nsync_mu_wait */
	if (cur >= 0 && has (expr, "waiting") && has (func, "nsync_mu_lock_slow_")) { fibers[cur].pend_wait = (const volatile uint32_t *) p; }
	sched_point ();
	if (cur >= 0) { fibers[cur].pend_wait = NULL; }
	e0 = write_epoch;
	v = *(const volatile uint32_t *) p;
	vf_log ("atm %s/%d/%s ld %s %s - - %u -", file, k, func, ordname[ord], loc_name (p, func, expr, lb, sizeof (lb)), v);
	(void) e0; note_op (0);
	return (v);
}
void vf_store (nsync_atomic_uint32_ *p, uint32_t v, int ord, const char *file, int k, const char *func, const char *expr) {
	char lb[64]; uint32_t old;
	sched_point ();
	old = *(volatile uint32_t *) p;
	*(volatile uint32_t *) p = v;
	vf_log ("atm %s/%d/%s st %s %s - %u %u -", file, k, func, ordname[ord], loc_name (p, func, expr, lb, sizeof (lb)), v, old);
	if (v == 1 && has (expr, "waiting") && has (func, "nsync_mu_lock_slow_") && vf_requeue_hook != NULL) { (*vf_requeue_hook) (cur); }
	if (v == 1 && has (expr, "waiting") && has (func, "nsync_cv_wait_with_deadline_generic")) { struct obj *wo = find_obj (p); if (wo != NULL) { wo->unl = 0; } }
	note_op (1);
}
int vf_cas (nsync_atomic_uint32_ *p, uint32_t o, uint32_t n, int ord, const char *file, int k, const char *func, const char *expr) {
	char lb[64]; uint32_t obs; int ok;
	sched_point ();
	obs = *(volatile uint32_t *) p;
	ok = (obs == o);
	if (ok) { *(volatile uint32_t *) p = n; }
	vf_log ("atm %s/%d/%s cas %s %s %u %u %u %d", file, k, func, ordname[ord], loc_name (p, func, expr, lb, sizeof (lb)), o, n, obs, ok);
	if (ok && has (expr, "remove_count")) {
		/* who unlinked this pooled cv waiter: a signaller/broadcaster (1) or the waiter itself on timeout (2) */
		struct obj *wo = find_obj (p);
		if (wo != NULL && wo->kind == K_WAITER) {
			if (has (func, "nsync_cv_signal") || has (func, "nsync_cv_broadcast")) { wo->unl = 1; }
			else if (has (func, "nsync_cv_wait_with_deadline_generic")) { wo->unl = 2; }
		}
	}
	note_op (ok);
	return (ok);
}

/* ------------------------------------------------------------------ platform functions of nsync */
void nsync_yield_ (void) {
	struct fiber *f;
	if (cur < 0) { return; }
	f = &fibers[cur];
	if (f->quiet_ops >= 4) {
		/* the fiber has re-read an unchanged world: park it until somebody writes */
		f->st = F_PARKED; f->park_epoch = write_epoch;
		yield_to_sched ();
		f->quiet_ops = 0;
	} else {
		sched_point ();
	}
}
void nsync_panic_ (const char *s) {
	char msg[200]; size_t n = strlen (s);
	snprintf (msg, sizeof (msg), "%s", s); if (n && n < sizeof (msg) && msg[n - 1] == '\n') { msg[n - 1] = 0; }
	vf_log ("panic %s", msg);
	vf_flush_log (stdout);
	_exit (VF_PANIC);
}
void *nsync_per_thread_waiter_ (void (*dest) (void *)) { (void) dest; return (cur >= 0 ? fibers[cur].ptw : NULL); }
void nsync_set_per_thread_waiter_ (void *v, void (*dest) (void *)) { if (cur >= 0) { fibers[cur].ptw = v; fibers[cur].ptw_dest = dest; } }

static int nsync_mallocs; static int ctor_mallocs;
static int alloc_fails (const char *func) {
	int unchecked = has (func, "nsync_waiter_new_") || has (func, "nsync_wait_n");
	nsync_mallocs++;
	if (!unchecked) { ctor_mallocs++; }
	return ((cfg.fail_malloc_at != 0 && nsync_mallocs == cfg.fail_malloc_at) || (cfg.fail_malloc_from != 0 && nsync_mallocs >= cfg.fail_malloc_from) ||
		(cfg.fail_ctor_at != 0 && !unchecked && ctor_mallocs == cfg.fail_ctor_at));
}
void *vf_malloc (size_t n, const char *func) {
	void *p;
	if (alloc_fails (func)) {
		vf_log ("malloc NULL %s", func);
		return (NULL);
	}
	p = vf_arena_alloc (n);
	if (n == sizeof (waiter) && has (func, "nsync_waiter_new_")) { reg_obj (p, n, K_WAITER, vf_next_index (K_WAITER)); }
	else if (n == sizeof (struct nsync_note_s_) && has (func, "nsync_note_new")) { reg_obj (p, n, K_NOTE, vf_next_index (K_NOTE)); }
	else if (n == sizeof (struct vf_counter_layout) && has (func, "nsync_counter_new")) { reg_obj (p, n, K_CTR, vf_next_index (K_CTR)); }
	else if (has (func, "nsync_wait_n")) { reg_obj (p, n, K_NWARR, vf_next_index (K_NWARR)); }
	vf_log ("malloc %s %s", vf_name_of (p) != NULL ? vf_name_of (p) : "anon", func);
	return (p);
}
/* calloc / aligned_alloc / memalign / posix_memalign: same failure switch and bookkeeping; the object kind is
   recognised by its size when the caller is a helper and not the constructor itself */
static void *vf_alloc_other (size_t n, size_t al, const char *func) {
	char *p;
	if (alloc_fails (func)) {
		vf_log ("malloc NULL %s", func);
		return (NULL);
	}
	if (al > 64) { p = (char *) vf_arena_alloc (n + al); p += (al - ((uintptr_t) p % al)) % al; } else { p = (char *) vf_arena_alloc (n); }
	if (n == sizeof (waiter)) { reg_obj (p, n, K_WAITER, vf_next_index (K_WAITER)); }
	else if (n == sizeof (struct nsync_note_s_)) { reg_obj (p, n, K_NOTE, vf_next_index (K_NOTE)); }
	else if (n == sizeof (struct vf_counter_layout)) { reg_obj (p, n, K_CTR, vf_next_index (K_CTR)); }
	else if (has (func, "nsync_wait_n")) { reg_obj (p, n, K_NWARR, vf_next_index (K_NWARR)); }
	vf_log ("malloc %s %s", vf_name_of (p) != NULL ? vf_name_of (p) : "anon", func);
	return (p);
}
void *vf_calloc (size_t k, size_t n, const char *func) { void *p = vf_alloc_other (k * n, 0, func); if (p != NULL) { memset (p, 0, k * n); } return (p); }
void *vf_aligned_alloc (size_t al, size_t n, const char *func) { return (vf_alloc_other (n, al, func)); }
int vf_posix_memalign (void **pp, size_t al, size_t n, const char *func) {
	void *p = vf_alloc_other (n, al, func);
	if (p == NULL) { return (ENOMEM); } /* *pp is left untouched, as glibc does */
	*pp = p;
	return (0);
}
void vf_free (void *p, const char *func) {
	struct obj *o = find_obj (p);
	vf_log ("free %s %s", o != NULL ? o->name : "anon", func);
	if (o != NULL) { o->live = 0; }
	if (p != NULL) { memset (p, 0xdd, o != NULL ? o->size : 1); }
}
int vf_clock_gettime (int clk, struct timespec *ts) {
	(void) clk;
	ts->tv_sec = now_ns / 1000000000; ts->tv_nsec = now_ns % 1000000000;
	vf_log ("now %lld", (long long) now_ns);
	return (0);
}

/* the interpreter brackets every API call so that stack-resident records can be invalidated */
/* Overwrite the stack area the coming API call will use with a junk pattern: an uninitialised local of the library
   (say, an out-parameter that a failing posix_memalign leaves untouched) then holds 0xA5A5… and not whatever an
   earlier frame happened to leave there (usually a convenient zero). */
static void __attribute__ ((noinline)) scrub_stack (void) {
	volatile char junk[12288]; size_t i;
	for (i = 0; i != sizeof (junk); i++) { junk[i] = (char) 0xA5; }
}
void vf_api_enter (void) { if (cur >= 0) { fibers[cur].call_seq++; fibers[cur].in_api = 1; scrub_stack (); } }
void vf_api_leave (void) {
	int i;
	if (cur < 0) { return; }
	fibers[cur].in_api = 0;
	for (i = 0; i != nobjs; i++) {
		if (objs[i].kind == K_NW && objs[i].live && objs[i].owner == cur) { objs[i].live = 0; }
	}
}
void vf_sched_note (void) { sched_point (); }
/* 1 if the pooled waiter this fiber used in its last cv wait was unlinked from the cv queue by a signaller or broadcaster */
int vf_my_waiter_unlinked_by_waker (void) {
	struct obj *o;
	if (cur < 0 || fibers[cur].ptw == NULL) { return (0); }
	o = find_obj (fibers[cur].ptw);
	return (o != NULL && o->unl == 1);
}

/* the same for any fiber (quiescence oracle) */
int vf_waiter_unlinked_by_waker (int k) {
	struct obj *o;
	if (k < 0 || k >= nfibers || fibers[k].ptw == NULL) { return (0); }
	o = find_obj (fibers[k].ptw);
	return (o != NULL && o->unl == 1);
}

/* ------------------------------------------------------------------ semaphores */
static int64_t time_to_ns (nsync_time t) {
	if (nsync_time_cmp (t, nsync_time_no_deadline) == 0) { return (INF_NS); }
	if ((double) NSYNC_TIME_SEC (t) < -9.0e9) { return (INT64_MIN / 2); }
	if ((double) NSYNC_TIME_SEC (t) > 9.0e9) { return (INF_NS - 1); }
	return ((int64_t) NSYNC_TIME_SEC (t) * 1000000000 + NSYNC_TIME_NSEC (t));
}
static const char *sem_name (nsync_semaphore *s) {
	static char b[32]; struct obj *o = find_obj (s);
	if (o != NULL && o->kind == K_WAITER) { snprintf (b, sizeof (b), "sem%d", o->idx); } else if (o != NULL && o->kind == K_SEM) { snprintf (b, sizeof (b), "%s", o->name); } else { snprintf (b, sizeof (b), "semX%lx", (unsigned long) ((char *) s - arena)); }
	return (b);
}
#ifndef VF_FUTEX
void nsync_mu_semaphore_init (nsync_semaphore *s) { *sem_count (s) = 0; }
void nsync_mu_semaphore_p (nsync_semaphore *s) {
	struct fiber *f = &fibers[cur];
	vf_log ("sem p_enter %s", sem_name (s));
	if (*sem_count (s) == 0 && vf_sem_sleep_hook != NULL) { (*vf_sem_sleep_hook) (cur); }
	f->st = F_BLOCKED_SEM; f->sem = s; f->deadline = INF_NS;
	yield_to_sched ();
	(*sem_count (s))--;
	vf_log ("sem p_ret %s", sem_name (s));
	note_op (1);
}
int nsync_mu_semaphore_p_with_deadline (nsync_semaphore *s, nsync_time abs_deadline) {
	struct fiber *f = &fibers[cur]; int64_t d = time_to_ns (abs_deadline); int res;
	if (d == INF_NS) { vf_log ("sem pd_enter %s inf", sem_name (s)); } else { vf_log ("sem pd_enter %s %lld", sem_name (s), (long long) d); }
	f->st = F_BLOCKED_SEM; f->sem = s; f->deadline = d;
	yield_to_sched ();
	if (*sem_count (s) > 0) { (*sem_count (s))--; res = 0; } else { res = ETIMEDOUT; }
	vf_log ("sem pd_ret %s %s", sem_name (s), res == 0 ? "0" : "ETIMEDOUT");
	note_op (1);
	return (res);
}
void nsync_mu_semaphore_v (nsync_semaphore *s) {
	sched_point ();
	if (cfg.binary_sem) { *sem_count (s) = 1; } else { (*sem_count (s))++; }
	vf_log ("sem v %s", sem_name (s));
	note_op (1);
}
long vf_syscall (long nr, ...) { (void) nr; errno = ENOSYS; return (-1); }
#else
/* ---------------------------------------------------------------- modelled futex (C12 build) */
static const char *errname (int e) { return (e == 0 ? "0" : e == EINTR ? "EINTR" : e == EAGAIN ? "EAGAIN" : e == ETIMEDOUT ? "ETIMEDOUT" : e == EINVAL ? "EINVAL" : "E?"); }
long vf_syscall (long nr, ...) {
	va_list ap; int *uaddr; int op; int val; const struct timespec *ts; char lb[64];
	struct fiber *f = &fibers[cur];
	va_start (ap, nr);
	uaddr = va_arg (ap, int *); op = va_arg (ap, int); val = va_arg (ap, int); ts = va_arg (ap, const struct timespec *);
	va_end (ap);
	op &= ~(FUTEX_PRIVATE_FLAG | FUTEX_CLOCK_REALTIME);
	loc_name (uaddr, "futex", "f->i", lb, sizeof (lb));
	if (op == FUTEX_WAIT_BITSET || op == FUTEX_WAIT) {
		int64_t d = INF_NS; int res;
		if (ts != NULL) {
			if (ts->tv_sec < 0 || ts->tv_nsec < 0 || ts->tv_nsec >= 1000000000) {
				vf_log ("futex wait %s %d invalid", lb, val); vf_log ("futex wait_ret %s EINVAL", lb);
				errno = EINVAL; return (-1);
			}
			d = (int64_t) ts->tv_sec * 1000000000 + ts->tv_nsec;
		}
		sched_point ();
		if (d == INF_NS) { vf_log ("futex wait %s %d inf", lb, val); } else { vf_log ("futex wait %s %d %lld", lb, val, (long long) d); }
		if (*(volatile int *) uaddr != val) { vf_log ("futex wait_ret %s EAGAIN", lb); errno = EAGAIN; note_op (0); return (-1); }
		/* fault injection: the sleeper will return early (EINTR / spurious 0 / premature ETIMEDOUT)
		   unless a wake reaches it first */
		f->fut_fault = 0;
		if ((int) (vf_rand () % 1000) < cfg.futex_fault_prob) {
			int kind = (int) (vf_rand () % 3);
			if (kind == 2 && d == INF_NS) { kind = 0; }
			f->fut_fault = kind == 0 ? EINTR : kind == 1 ? -1 : ETIMEDOUT;
		}
		f->st = F_BLOCKED_FUTEX; f->fut_addr = uaddr; f->fut_woken = 0; f->deadline = d;
		yield_to_sched ();
		res = f->fut_woken ? 0 : f->fut_fault == -1 ? 0 : f->fut_fault != 0 ? f->fut_fault : ETIMEDOUT;
		f->fut_addr = NULL; f->fut_fault = 0;
		vf_log ("futex wait_ret %s %s", lb, errname (res));
		note_op (1);
		if (res == 0) { return (0); }
		errno = res; return (-1);
	} else if (op == FUTEX_WAKE) {
		int i; int woken = 0;
		sched_point ();
		for (i = 0; i != nfibers && woken < val; i++) {
			if (fibers[i].st == F_BLOCKED_FUTEX && fibers[i].fut_addr == uaddr && !fibers[i].fut_woken) { fibers[i].fut_woken = 1; woken++; }
		}
		vf_log ("futex wake %s %d %d", lb, val, woken);
		note_op (1);
		return (woken);
	}
	errno = ENOSYS; return (-1);
}
#endif

/* ------------------------------------------------------------------ compiler-inserted callbacks (-fsanitize=thread) */
static int ignore_depth;
const char *vf_objname (const void *p, char *buf, size_t n);
static void plain_access (void *addr, int size, int is_write) {
	struct obj *o;
	if (cur < 0 || (!cfg.log_plain && !cfg.check_plain)) { return; }
	/* accesses to the current fiber's own stack are uninteresting unless a record lives there */
	o = find_obj (addr);
	if (o == NULL) {
		/* another fiber's stack? */
		int i;
		for (i = 0; i != nfibers; i++) {
			if (i != cur && (char *) addr >= fibers[i].stack && (char *) addr < fibers[i].stack + fibers[i].stack_size) {
				if (!fibers[i].in_api) { vf_violation ("dead-stack", "fiber %d touches stack of fiber %d outside any call", cur, i); }
			}
		}
		return;
	}
	if (!o->live && o->kind == K_NW && o->owner == cur) { return; } /* the owner re-using its own stack slot in a later call */
	/* plainsched: plain writes — and, at half the rate, plain READS (a waker reading a field of a record after the store
	   that lets the record's owner leave) — of registered objects are scheduling points too */
	if (cfg.plain_sched != 0 && fibers[cur].in_api && (int) (ps_rand () % 1000) < (is_write ? cfg.plain_sched : cfg.plain_sched / 2)) {
		sched_point ();
	}
	if (!o->live && cfg.check_plain) {
		vf_violation ("dead-object", "plain %s of reclaimed object %s+%ld", is_write ? "write" : "read", o->name, (long) ((char *) addr - o->base));
	}
	if (cfg.log_plain) { vf_log ("plain %c %s+%ld %d", is_write ? 'w' : 'r', o->name, (long) ((char *) addr - o->base), size); }
}
void __tsan_init (void) {}
void __tsan_func_entry (void *pc) { (void) pc; }
void __tsan_func_exit (void) {}
void __tsan_read1 (void *a) { plain_access (a, 1, 0); }
void __tsan_read2 (void *a) { plain_access (a, 2, 0); }
void __tsan_read4 (void *a) { plain_access (a, 4, 0); }
void __tsan_read8 (void *a) { plain_access (a, 8, 0); }
void __tsan_read16 (void *a) { plain_access (a, 16, 0); }
void __tsan_write1 (void *a) { plain_access (a, 1, 1); }
void __tsan_write2 (void *a) { plain_access (a, 2, 1); }
void __tsan_write4 (void *a) { plain_access (a, 4, 1); }
void __tsan_write8 (void *a) { plain_access (a, 8, 1); }
void __tsan_write16 (void *a) { plain_access (a, 16, 1); }
void __tsan_unaligned_read2 (void *a) { plain_access (a, 2, 0); }
void __tsan_unaligned_read4 (void *a) { plain_access (a, 4, 0); }
void __tsan_unaligned_read8 (void *a) { plain_access (a, 8, 0); }
void __tsan_unaligned_write2 (void *a) { plain_access (a, 2, 1); }
void __tsan_unaligned_write4 (void *a) { plain_access (a, 4, 1); }
void __tsan_unaligned_write8 (void *a) { plain_access (a, 8, 1); }
void __tsan_vptr_update (void **a, void *b) { (void) a; (void) b; }
void __tsan_vptr_read (void **a) { (void) a; }
void __tsan_read_range (void *a, unsigned long n) { plain_access (a, (int) n, 0); }
void __tsan_write_range (void *a, unsigned long n) { plain_access (a, (int) n, 1); }
void *__tsan_memset (void *d, int c, unsigned long n) { plain_access (d, (int) n, 1); return (memset (d, c, n)); }
void *__tsan_memcpy (void *d, const void *s, unsigned long n) { plain_access (d, (int) n, 1); return (memcpy (d, s, n)); }
void *__tsan_memmove (void *d, const void *s, unsigned long n) { plain_access (d, (int) n, 1); return (memmove (d, s, n)); }
void AnnotateIgnoreWritesBegin (const char *f, int l) { (void) f; (void) l; ignore_depth++; }
void AnnotateIgnoreWritesEnd (const char *f, int l) { (void) f; (void) l; ignore_depth--; }
void AnnotateIgnoreReadsBegin (const char *f, int l) { (void) f; (void) l; }
void AnnotateIgnoreReadsEnd (const char *f, int l) { (void) f; (void) l; }
void AnnotateRWLockCreate (const char *f, int l, void *mu) { (void) f; (void) l; (void) mu; }
/* nsync's own idea of when the mutex is acquired and released */
void (*vf_lockann_hook) (void *mu, int acquired, int write);
void AnnotateRWLockAcquired (const char *f, int l, void *mu, long w) {
	(void) f; (void) l;
	{ char nb[64]; vf_log ("lockann acq %s %ld", vf_objname (mu, nb, sizeof (nb)), w); }
	if (vf_lockann_hook) { (*vf_lockann_hook) (mu, 1, (int) w); }
}
void AnnotateRWLockReleased (const char *f, int l, void *mu, long w) {
	(void) f; (void) l;
	{ char nb[64]; vf_log ("lockann rel %s %ld", vf_objname (mu, nb, sizeof (nb)), w); }
	if (vf_lockann_hook) { (*vf_lockann_hook) (mu, 0, (int) w); }
}

/* ------------------------------------------------------------------ crash handling / init */
static void on_segv (int sig) {
	static const char m[] = "- crash SIGSEGV\n";
	(void) sig;
	log_append (m, sizeof (m) - 1);
	vf_flush_log (stdout);
	_exit (VF_CRASH);
}
const char *vf_outcome_name (int o) {
	switch (o) {
	case VF_OK: return ("ok"); case VF_STUCK: return ("stuck"); case VF_PANIC: return ("panic"); case VF_CRASH: return ("crash");
	case VF_STEPLIMIT: return ("steplimit"); case VF_ORACLE: return ("oracle"); case VF_SCRIPT_DIVERGED: return ("script-diverged");
	default: return ("?");
	}
}
void vf_init (const struct vf_config *c) {
	static char altstack[65536]; stack_t ss; struct sigaction sa; int i;
	cfg = *c;
	prng = c->seed * 0x9E3779B97F4A7C15ull + 0x1234567ull; if (prng == 0) { prng = 1; }
	prng2 = c->seed * 0xD1B54A32D192ED03ull + 0x7654321ull; if (prng2 == 0) { prng2 = 1; }
	for (i = 0; i != 8; i++) { vf_rand (); }
	now_ns = 1000000000000ll; /* 1000 s after the epoch */
	ss.ss_sp = altstack; ss.ss_size = sizeof (altstack); ss.ss_flags = 0; sigaltstack (&ss, NULL);
	memset (&sa, 0, sizeof (sa)); sa.sa_handler = on_segv; sa.sa_flags = SA_ONSTACK; sigaction (SIGSEGV, &sa, NULL); sigaction (SIGBUS, &sa, NULL);
	pct_n = c->pct_depth > 8 ? 8 : c->pct_depth;
	for (i = 0; i != pct_n; i++) { pct_points[i] = (int) (vf_rand () % 400) + 1; }
}
