/* Harness runtime: deterministic fiber scheduler, virtual clock, abstract semaphores,
   modelled futex, bump allocator, object registry, event log.
   The unmodified nsync sources are compiled against ../platform and linked with this. */
#ifndef VF_H_
#define VF_H_
#include <stdint.h>
#include <stddef.h>
#include <stdio.h>

enum vf_outcome { VF_OK = 0, VF_STUCK = 10, VF_PANIC = 11, VF_CRASH = 12, VF_STEPLIMIT = 13,
		  VF_ORACLE = 14, VF_SCRIPT_DIVERGED = 15 };

enum vf_kind { K_MU = 1, K_CV, K_WAITER, K_NW, K_NOTE, K_CTR, K_ONCE, K_ONCESYNC, K_POOL, K_VAR, K_NWARR, K_SEM };

struct vf_config {
	uint64_t seed;
	int binary_sem;       /* 1: V sets the count to 1 (binary semaphore flavour) */
	int strategy;         /* 0 uniform, 1 sticky(1/4), 2 sticky(1/16), 3 PCT */
	int pct_depth;        /* number of priority change points for PCT */
	int tick_prob;        /* per-mille probability of firing a pending deadline at a scheduling point */
	long step_limit;
	int log_plain;        /* log compiler-inserted plain accesses to registered objects */
	int check_plain;      /* check plain accesses against dead objects */
	int plain_sched;      /* per-mille probability that a plain WRITE by library code to a registered shared object
				 (waiter records, queue heads …) is a scheduling point: lets another thread run
				 between two adjacent statements of a section the library believes to be protected */
	const int *script;    /* scripted schedule (tids; negative = tick), or NULL */
	int script_len;
	int fail_malloc_at;   /* fail the k-th (1-based) malloc performed by nsync code; 0 = never */
	int fail_malloc_from; /* fail EVERY malloc from the k-th on (a persistent shortage); 0 = never */
	int fail_ctor_at;     /* fail the k-th allocation that is NOT one of the library's unchecked ones (waiter pool, nsync_wait_n): the constructors'; 0 = never */
	int thread_exit;      /* run the per-thread waiter's destructor when a fiber ends (a pthread key destructor: the waiter goes to the free pool) */
	int futex_fault_prob; /* per-mille probability of an early futex return (futex build) */
};

void vf_init (const struct vf_config *cfg);
int vf_spawn (void (*fn) (void *), void *arg);
int vf_run (void);                 /* returns enum vf_outcome */
int vf_self (void);
int vf_retry_loads (int k); void vf_retry_loads_reset (void); /* loads fiber k has done in mu_try_acquire_after_timeout_or_cancel */
int vf_sem_value (nsync_semaphore *s); /* current count of a semaphore (abstract or futex build) */
void vf_log_alias (int tid); /* > 0: log the current fiber's events under this thread id until reset with 0 */
int64_t vf_now (void);             /* virtual ns */
uint64_t vf_rand (void);           /* environment PRNG */
void vf_log (const char *fmt, ...); /* "<tid> " + text + newline */
void vf_log_env (const char *fmt, ...); /* "- " + text */
void vf_flush_log (FILE *out);
const char *vf_outcome_name (int o);
void vf_violation (const char *oracle, const char *fmt, ...); /* records first oracle hit */
const char *vf_violation_text (void);
void vf_api_enter (void);          /* interpreter: about to call into nsync */
void vf_api_leave (void);          /* interpreter: call returned (stack records of this fiber die) */
void vf_sched_note (void);
int vf_my_waiter_unlinked_by_waker (void);
long vf_steps (void);
int vf_plain_sched (void);
void vf_advance (int64_t ns);
int vf_waiter_unlinked_by_waker (int k);
int vf_fiber_blocked (int k);
void vf_wait_fiber_blocked (int k);
const int *vf_schedule (int *len); /* recorded schedule of this execution */

/* registry */
void vf_reg (const void *p, size_t size, int kind, int idx);
void vf_kill (const void *p);      /* object memory is reclaimed: any later access is a violation */
const char *vf_name_of (const void *p);   /* object name or NULL */
int vf_next_index (int kind);
void *vf_arena_alloc (size_t n);   /* harness-side allocation from the same arena */
uint32_t vf_counter_peek (const void *c);
#endif
