/* Wrapper translation unit: compiles /repo/internal/once.c unchanged and adds accessors for its
   file-static once_sync[] table so that the harness can name the slot mutexes. */
#include "once.c"
void *vf_once_sync_base (void) { return ((void *) once_sync); }
size_t vf_once_sync_stride (void) { return (sizeof (once_sync[0])); }
