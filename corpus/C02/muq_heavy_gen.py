import sys, random
sys.path.insert(0, '/verif/tools')
import gen
def fam_heavy(rng):
    nf = rng.choice([3, 4, 5, 6])
    nmu = rng.choice([1, 1, 1, 2])
    lines = ["sem %s" % rng.choice(["counting", "binary"]), "objs mu=%d cv=0 var=2" % nmu, "var x0 0 mu0", "var x1 0 mu%d" % (nmu - 1)]
    for f in range(nf):
        ops = []
        for _ in range(rng.choice([2, 3, 4, 5])):
            mu = rng.randrange(nmu)
            def body(w, mu=mu):
                b = []
                if w: b.append("inc x%d" % mu)
                else: b.append("rd x%d" % mu)
                b += ["yield"] * rng.choice([0, 1, 2, 3])
                return b
            ops += gen.section(rng, mu, body, modes=("lock", "lock", "rlock", "rlock", "rlock", "trylock", "rtrylock"))
        lines.append("fiber " + " ; ".join(ops))
    return lines
def fam_batch(rng):
    """one writer holding for a while, several readers queueing behind it, then more writers: reader batches"""
    lines = ["sem %s" % rng.choice(["counting", "binary"]), "objs mu=1 cv=0 var=1", "var x0 0 mu0"]
    lines.append("fiber lock mu0 ; inc x0 ; yield ; yield ; yield ; yield ; yield ; yield ; unlock mu0 ; lock mu0 ; inc x0 ; yield ; yield ; unlock mu0")
    for i in range(rng.choice([2, 3, 4])):
        lines.append("fiber rlock mu0 ; rd x0 ; yield ; runlock mu0 ; rlock mu0 ; rd x0 ; runlock mu0")
    for i in range(rng.choice([1, 2])):
        lines.append("fiber yield ; lock mu0 ; inc x0 ; yield ; yield ; unlock mu0")
    return lines
def make(path, seed, plan):
    rng = random.Random(seed)
    with open(path, "w") as f:
        for fam, ns, ne in plan:
            for _ in range(ns):
                lines = {"heavy": fam_heavy, "batch": fam_batch}[fam](rng)
                f.write("\n".join(lines) + "\n" + "\n".join(gen.execs(rng, ne)) + "\n---\n")
if __name__ == "__main__":
    make(sys.argv[1], int(sys.argv[2]), [("heavy", int(sys.argv[3]), 8), ("batch", int(sys.argv[4]), 8)])
