#!/usr/bin/env python3
"""mksched.py <scenario> <vfh> <fiber:pattern> ... : build a scripted schedule; each pair runs the fiber
until it logs a NEW line containing the pattern."""
import subprocess, sys
scen, vfh = sys.argv[1], sys.argv[2]
def run(script):
    args = [vfh, "run", scen, "seed=1", "sched=" + ",".join(map(str, script)), "steps=%d" % len(script)]
    return subprocess.run(args, capture_output=True, text=True).stdout.splitlines()
script = []
def advance(t, pat, maxn=300):
    global script
    def mine(lines): return [l for l in lines if l.startswith("%d " % t)]
    base = len(mine(run(script))) if script else 0
    for _ in range(maxn):
        script.append(t)
        lines = run(script)
        new = mine(lines)[base:]
        if any(pat in l for l in new): return
        if any("script-diverged" in l for l in lines): raise SystemExit("diverged running fiber %d for %s" % (t, pat))
    raise SystemExit("stuck on fiber %d for %s" % (t, pat))
for a in sys.argv[3:]:
    t, pat = a.split(":", 1)
    advance(int(t), pat)
print(",".join(map(str, script)))
