#!/usr/bin/env python3
"""Build a scripted schedule in which fiber 0 (the victim) is woken and loses the race `rounds` times.
Iterative replay: the harness is re-run with the script so far and steps=<len>; the policy looks at the log."""
import subprocess, sys
scen, vfh, rounds = sys.argv[1], sys.argv[2], int(sys.argv[3])
def run(script, limit=True):
    args = [vfh, "run", scen, "seed=1", "sched=" + ",".join(map(str, script))]
    if limit: args.append("steps=%d" % len(script))
    return subprocess.run(args, capture_output=True, text=True).stdout.splitlines()
def last(lines, t):
    for l in reversed(lines):
        if l.startswith("%d " % t): return l
    return ""
script = []
def advance(t, pat, maxn=300):
    """run fiber t until it logs a NEW line containing pat"""
    global script
    def mine(lines): return [l for l in lines if l.startswith("%d " % t)]
    base = len(mine(run(script))) if script else 0
    for _ in range(maxn):
        script.append(t)
        lines = run(script)
        new = mine(lines)[base:]
        if any(pat in l for l in new): return lines
        if any("script-diverged" in l for l in lines):
            open("dbg.log","w").write("\n".join(lines)); raise SystemExit("diverged running fiber %d for %s" % (t, pat))
    raise SystemExit("policy stuck on fiber %d" % t)
# fiber 1 acquires first
advance(1, "ret nsync_mu_lock")
holder, other = 1, 2
advance(0, "sem p_enter")          # victim queues and sleeps
for r in range(rounds):
    advance(holder, "ret nsync_mu_unlock")   # wakes the victim
    advance(other, "ret nsync_mu_lock")      # a fresh thread barges in
    advance(0, "sem p_enter")                # victim wakes, loses, re-queues at the front, sleeps
    holder, other = other, holder
if rounds >= 30:
    advance(holder, "ret nsync_mu_unlock")
    advance(other, "sem p_enter")          # the fresh thread is now stopped by MU_LONG_WAIT
    advance(0, "ret nsync_mu_lock")        # the victim acquires
print(",".join(map(str, script)))
