"""Tie of the CvFix acceptor to the patched code.
usage: tie.py <harness build dir> <out dir> <seed> <replayfix exe> [waitn|f3]
  harness build dir: sh /verif/harness/build.sh <dir> <repo copy with cv_fix.diff applied>
  replayfix exe:     in a scratch copy of /verif/lean: copy replayfix_main.lean to Driver/MainFix.lean, add
                     `[[lean_exe]] name = "replayfix" root = "Driver.MainFix"` to lakefile.toml, `lake build replayfix`.
Prints the harness outcomes, the semaphore flavours, the first REJECT lines and the acceptor's SUMMARY."""
import sys, os, glob, subprocess, shutil, collections
sys.path.insert(0, "/verif/tools")
import gen as G, common as C
hb, out, seed, exe = sys.argv[1], sys.argv[2], int(sys.argv[3]), sys.argv[4]
plan = [("cv", 100, 8), ("cv_raw", 60, 8), ("cv_rsignal", 60, 8), ("waitn_cv", 160, 8)]
if len(sys.argv) > 5 and sys.argv[5] == "waitn": plan = [("waitn_cv", 400, 8)]
if len(sys.argv) > 5 and sys.argv[5] == "f3": plan = [("waitn_f3", 300, 8)]
os.makedirs(out, exist_ok=True)
batch = os.path.join(out, "batch.txt"); open(batch, "w").close()
blocks = []
G.append_corpus(batch, blocks, ["/verif/corpus/C04/f3_waitn_cv.txt"])
rnd = os.path.join(out, "rnd.txt")
blocks += G.make_batch(rnd, seed, plan)
open(batch, "a").write(open(rnd).read())
logs = os.path.join(out, "logs"); shutil.rmtree(logs, ignore_errors=True)
subprocess.run([os.path.join(hb, "vfh"), "batch", batch, logs, "checkplain=1"], check=False, capture_output=True)
lp = sorted(glob.glob(os.path.join(logs, "log.*")))
oc = C.parse_outcomes(lp)
print("executions", len(oc), dict(collections.Counter((o["outcome"], (o["violation"] or "").split(":")[0]) for o in oc)))
print("flavours", dict(collections.Counter(l for b in blocks for l in b[1] if l.startswith("sem "))))
cat = subprocess.Popen(["cat"] + lp, stdout=subprocess.PIPE)
r = subprocess.run([exe], stdin=cat.stdout, capture_output=True, text=True)
lines = r.stdout.splitlines()
print("\n".join([l for l in lines if l.startswith("REJECT")][:15]))
print(lines[-1] if lines else r.stderr[-300:])
