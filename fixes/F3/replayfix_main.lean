import NsyncVerif.Model.CvFixDriver
/- scratch replay driver for the CvFix layer: one verdict summary per run -/
open NsyncVerif

structure St where
  d : CvFix.Driver.DState := CvFix.Driver.init
  dead : Bool := false
  execNo : Nat := 0
  lineNo : Nat := 0
  accepted : Nat := 0
  skipped : Nat := 0
  rejects : Nat := 0
  rejExecs : Nat := 0

partial def loop (h : IO.FS.Stream) (st : St) : IO St := do
  let line ← h.getLine
  if line.isEmpty then return st
  let line := line.trimAsciiEnd.toString
  let st := { st with lineNo := st.lineNo + 1 }
  if line.startsWith "# begin" then
    loop h { st with d := CvFix.Driver.init, dead := false, execNo := st.execNo + 1 }
  else if st.dead then loop h st
  else
    let (d, out) := CvFix.Driver.step st.d line
    if out == "ok" then loop h { st with d := d, accepted := st.accepted + 1 }
    else if out == "skip" || out == "#" then loop h { st with d := d, skipped := st.skipped + 1 }
    else do
      IO.println s!"REJECT exec={st.execNo} line={st.lineNo} layer=cvfix {out} | {line}"
      loop h { st with dead := true, rejects := st.rejects + 1 }

def main : IO UInt32 := do
  let st ← loop (← IO.getStdin) {}
  IO.println s!"SUMMARY execs={st.execNo} lines={st.lineNo} accepted={st.accepted} skipped={st.skipped} rejects={st.rejects}"
  return (if st.rejects == 0 then 0 else 1)
