#!/usr/bin/env python3
"""Random contract-legal scenarios for note.c WITHOUT the restrictions of /verif/tools/gen_note.py:
any note (with or without children) may be freed, concurrently with frees of its ancestors/descendants, with
notifications of its ancestors/descendants, with several notifiers of the same note, with lazy expiry (deadlines
p<ns>/m<ns>) and with nsync_note_new under shared notes.  Contract kept: a freed note is named by its freeing fiber only
(and not after the free); nsync_note_new (parent) counts as a use of parent.

usage: gen_free.py <seed> <n_scen> <n_exec> <out.batch>      then  vfh batch out.batch logs ; check_final.py logs out.batch
"""
import random, sys

def scen(rng):
    nn = rng.choice([3, 4, 4, 5, 6, 7, 8])
    timed = rng.random() < 0.35
    dls = ["inf"] * 6 + (["p1000", "p40000", "m5"] if timed else [])
    parent, depth, pre = [], [], []
    for i in range(nn):
        c = [j for j in range(i) if depth[j] < 3]
        if i == 0 or not c or rng.random() < 0.1: p, d = None, 1
        else:
            p = rng.choice(c[-3:] if rng.random() < 0.6 else c); d = depth[p] + 1     # bias to chains
        parent.append(p); depth.append(d)
        pre.append("note_new n%d %s %s" % (i, "n%d" % p if p is not None else "-", rng.choice(dls)))
    nf = rng.choice([2, 3, 3, 4, 4, 5])
    ids = list(range(nn)); rng.shuffle(ids)
    freed = ids[:rng.choice([1, 2, 2, 3, 3, 4])]
    if len(freed) >= nn: freed = freed[:nn - 1]
    owner = {n: rng.randrange(nf) for n in freed}
    shared = [i for i in range(nn) if i not in freed]
    fresh = nn
    lines = ["sem %s" % rng.choice(["counting", "binary"]), "objs mu=0 cv=0 var=0 once=0 sem=0", "pre " + " ; ".join(pre)]
    for f in range(nf):
        ops, own_new, waited = [], [], False
        mine = [n for n in freed if owner[n] == f]
        for _ in range(rng.choice([1, 2, 2, 3, 4])):
            pool = shared + own_new + mine
            n = rng.choice(pool)
            k = rng.choice(["notify"] * 4 + ["is_notified"] * 2 + ["note_wait", "note_new", "note_new", "yield"])
            if k == "notify": ops.append("notify n%d" % n)
            elif k == "is_notified": ops.append("is_notified n%d" % n)
            elif k == "note_wait":
                if waited: continue
                waited = True
                ops.append("note_wait n%d %s" % (n, rng.choice(["p500", "p30000", "z"])))
            elif k == "note_new":
                if fresh >= 15: continue
                ops.append("note_new n%d n%d %s" % (fresh, n, rng.choice(dls))); own_new.append(fresh); fresh += 1
            else: ops.append("yield")
        # frees: a fiber's own notes are freed at random positions; ops naming them later are skipped by the interpreter
        for n in mine:
            ops.insert(rng.randrange(len(ops) + 1), "note_free n%d" % n)
        # ops after the free of a note that name it (incl. note_new under it) must go: the interpreter skips ops on a
        # NULL slot, but note_new with a NULL parent slot would create a root: drop them here
        out, dead = [], set()
        for o in ops:
            t = o.split()
            named = [x for x in t[1:3] if x.startswith("n") and x[1:].isdigit()]
            if t[0] == "note_new":
                if t[2] in dead: dead.add(t[1]); continue
            elif any(x in dead for x in named): continue
            if t[0] == "note_free": dead.add(t[1])
            out.append(o)
        if shared: out.append("is_notified n%d" % rng.choice(shared))
        lines.append("fiber " + " ; ".join(out or ["yield"]))
    return lines

if __name__ == "__main__":
    seed, ns, ne, out = int(sys.argv[1]), int(sys.argv[2]), int(sys.argv[3]), sys.argv[4]
    rng = random.Random(seed)
    with open(out, "w") as f:
        for _ in range(ns):
            f.write("\n".join(scen(rng)) + "\n")
            for _ in range(ne):
                f.write("exec seed=%d strategy=%d tick=%d\n" % (rng.randrange(1, 1 << 30), rng.choice([0, 0, 1, 2, 3]), rng.choice([0, 0, 20, 100, 300])))
            f.write("---\n")
