#!/bin/sh
# getexec.sh <logdir> <block> <outcome>  : print first execution of that block with that outcome
awk -v B="$2" -v O="$3" '/^# begin /{buf=""; cur=($3=="block=" B)} {buf=buf $0 "\n"} /^# outcome /{ if (cur && $3==O) {print buf; exit} }' $1/log.*
