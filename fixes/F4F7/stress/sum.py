import sys,glob,collections,re
d=collections.Counter(); det=collections.Counter()
for fn in sorted(glob.glob(sys.argv[1]+'/log.*')):
    blk=None
    for l in open(fn, errors='replace'):
        if l.startswith('# begin'):
            m=re.search(r'block=(\d+)',l); blk=m.group(1) if m else l.split()[2]
        elif l.startswith('# outcome'):
            t=l.split(); d[(blk,t[2])]+=1
            if t[2]!='ok': det[(blk,' '.join(t[2:6]))]+=1
tot=collections.Counter()
for (b,o),c in sorted(d.items(), key=lambda x:(int(x[0][0]) if x[0][0].isdigit() else 0,x[0][1])):
    tot[o]+=c
    if len(sys.argv)>2: print(b,o,c)
print('TOTAL',dict(tot))
for k,c in det.most_common(12): print('  ',k,c)
