/* Real-thread stress of the F4 / F4b / F7 shapes of nsync's note.c, public API only.
   usage: demo <shape 1..5|0=all> <rounds> [spin]      exit 0 = clean, 3 = hang (watchdog), 4 = wrong result.
   Build (from the nsync source directory), e.g. with -fsanitize=address or -fsanitize=thread:
     gcc -O1 -g -pthread -fsanitize=address -I platform/linux -I platform/gcc -I platform/posix -I platform/x86_64 \
         -I public -I internal demo.c <internal/*.c except sem_wait_no_note.c> platform/posix/src/nsync_panic.c \
         platform/posix/src/per_thread_waiter.c platform/posix/src/time_rep.c platform/posix/src/yield.c \
         platform/linux/src/nsync_semaphore_futex.c -o demo -lpthread
   Shapes (-> is parent-to-child):
     1 F4    n0->n1->n2         notify(n0) | free(n1)                          then n2 must be notified
     2 F4b   r->n0->n1->n2      free(n0) | free(n1)                            then notify(r) must notify n2
     3 F7    n0->n1             notify(n1) | notify(n1) | free(n0)
     4 F7b   r->n0->n1->n2      notify(r) | free(n1) | notify(n2) | free(n0)   then n2 must be notified
     5 mix   n0->n1->n2->n3     notify(n0) | free(n1) | free(n2) | wait(n3)    the wait must succeed */
#include <stdio.h>
#include <stdlib.h>
#include <unistd.h>
#include <pthread.h>
#include <stdint.h>
#include "nsync.h"

#define NT 4
static pthread_barrier_t bar;
static long progress;
static int cur_shape;
static long cur_round;
static int shape, spin_max = 200;
static long rounds;
static nsync_note r, n0, n1, n2, n3;
static int bad;
static int stop;

static uint32_t rng_state[NT + 1];
static uint32_t rnd (int t) { uint32_t x = rng_state[t]; x ^= x << 13; x ^= x >> 17; x ^= x << 5; return (rng_state[t] = x); }
static void spin (int t) { volatile uint32_t k = rnd (t) % (uint32_t) spin_max; if ((rnd (t) & 3) == 0) { k = 0; } while (k != 0) { k--; } }

static void op (int s, int t) {
	switch (s * 10 + t) {
	case 10: nsync_note_notify (n0); break;
	case 11: nsync_note_free (n1); break;
	case 20: nsync_note_free (n0); break;
	case 21: nsync_note_free (n1); break;
	case 30: nsync_note_notify (n1); break;
	case 31: nsync_note_notify (n1); break;
	case 32: nsync_note_free (n0); break;
	case 40: nsync_note_notify (r); break;
	case 41: nsync_note_free (n1); break;
	case 42: nsync_note_notify (n2); break;
	case 43: nsync_note_free (n0); break;
	case 50: nsync_note_notify (n0); break;
	case 51: nsync_note_free (n1); break;
	case 52: nsync_note_free (n2); break;
	case 53: if (!nsync_note_wait (n3, nsync_time_add (nsync_time_now (), nsync_time_ms (20000)))) { __atomic_store_n (&bad, 53, __ATOMIC_RELAXED); } break;
	default: break;
	}
}

static void *worker (void *v) {
	int t = (int) (intptr_t) v;
	for (;;) {
		pthread_barrier_wait (&bar);
		if (stop) { break; }
		spin (t);
		op (cur_shape, t);
		pthread_barrier_wait (&bar);
	}
	return (NULL);
}

static void *watchdog (void *v) {
	long last = -1; int idle = 0;
	(void) v;
	for (;;) {
		sleep (1);
		long pr = __atomic_load_n (&progress, __ATOMIC_RELAXED);
		if (pr == last) { idle++; } else { idle = 0; last = pr; }
		if (idle >= 25) {
			printf ("HANG shape %d round %ld\n", __atomic_load_n (&cur_shape, __ATOMIC_RELAXED), __atomic_load_n (&cur_round, __ATOMIC_RELAXED)); fflush (stdout);
			_exit (3);
		}
	}
	return (NULL);
}

static void fail (const char *what) { printf ("WRONG shape %d round %ld: %s\n", cur_shape, cur_round, what); fflush (stdout); _exit (4); }

static void one_round (int s) {
	nsync_time inf = nsync_time_no_deadline;
	r = n0 = n1 = n2 = n3 = NULL;
	switch (s) {
	case 1: n0 = nsync_note_new (NULL, inf); n1 = nsync_note_new (n0, inf); n2 = nsync_note_new (n1, inf); break;
	case 2: case 4: r = nsync_note_new (NULL, inf); n0 = nsync_note_new (r, inf); n1 = nsync_note_new (n0, inf); n2 = nsync_note_new (n1, inf); break;
	case 3: n0 = nsync_note_new (NULL, inf); n1 = nsync_note_new (n0, inf); break;
	case 5: n0 = nsync_note_new (NULL, inf); n1 = nsync_note_new (n0, inf); n2 = nsync_note_new (n1, inf); n3 = nsync_note_new (n2, inf); break;
	}
	__atomic_store_n (&cur_shape, s, __ATOMIC_RELAXED);
	pthread_barrier_wait (&bar);
	pthread_barrier_wait (&bar);
	if (bad) { fail ("nsync_note_wait (n3) timed out: n3 was never notified"); }
	switch (s) {
	case 1: if (!nsync_note_is_notified (n2)) { fail ("n2 not notified after notify (n0)"); } nsync_note_free (n0); nsync_note_free (n2); break;
	case 2: nsync_note_notify (r); if (!nsync_note_is_notified (n2)) { fail ("n2 was not adopted by r"); } nsync_note_free (r); nsync_note_free (n2); break;
	case 3: nsync_note_free (n1); break;
	case 4: if (!nsync_note_is_notified (n2)) { fail ("n2 not notified"); } nsync_note_free (r); nsync_note_free (n2); break;
	case 5: if (!nsync_note_is_notified (n3)) { fail ("n3 not notified"); } nsync_note_free (n0); nsync_note_free (n3); break;
	}
	__atomic_fetch_add (&progress, 1, __ATOMIC_RELAXED);
}

int main (int argc, char **argv) {
	pthread_t th[NT], wd; int t; long i; int s;
	shape = argc > 1 ? atoi (argv[1]) : 0;
	rounds = argc > 2 ? atol (argv[2]) : 100000;
	if (argc > 3) { spin_max = atoi (argv[3]); }
	for (t = 0; t <= NT; t++) { rng_state[t] = 2463534242u + 77u * (uint32_t) t; }
	pthread_barrier_init (&bar, NULL, NT + 1);
	pthread_create (&wd, NULL, watchdog, NULL);
	for (t = 0; t < NT; t++) { pthread_create (&th[t], NULL, worker, (void *) (intptr_t) t); }
	for (s = 1; s <= 5; s++) {
		if (shape != 0 && shape != s) { continue; }
		for (i = 0; i < rounds; i++) { __atomic_store_n (&cur_round, i, __ATOMIC_RELAXED); one_round (s); }
		printf ("shape %d: %ld rounds clean\n", s, rounds); fflush (stdout);
	}
	stop = 1;
	pthread_barrier_wait (&bar);
	for (t = 0; t < NT; t++) { pthread_join (th[t], NULL); }
	return (0);
}
