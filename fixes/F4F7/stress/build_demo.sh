#!/bin/sh
# build_demo.sh <nsync source dir> <out binary> <extra cflags...>
R=$1; O=$2; shift 2
SRC=$(ls $R/internal/*.c | grep -v sem_wait_no_note.c)
gcc -O1 -g -pthread "$@" -I $R/platform/linux -I $R/platform/gcc -I $R/platform/posix -I $R/platform/x86_64 -I $R/public -I $R/internal \
  $(dirname $0)/demo.c $SRC $R/platform/posix/src/nsync_panic.c $R/platform/posix/src/per_thread_waiter.c \
  $R/platform/posix/src/time_rep.c $R/platform/posix/src/yield.c $R/platform/linux/src/nsync_semaphore_futex.c -o $O -lpthread
