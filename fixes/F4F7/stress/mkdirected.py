import sys,glob
out=sys.argv[1]; n=int(sys.argv[2])
with open(out,'w') as f:
    for i,cf in enumerate(sorted(glob.glob(''+sys.argv[3]+'/d*.txt'))):
        lines=[l.rstrip('\n') for l in open(cf) if l.strip() and not l.startswith('#')]
        f.write('\n'.join(lines)+'\n')
        for k in range(n):
            f.write('exec seed=%d strategy=%d tick=%d\n'%(200000+k*7+i,k%4,[0,0,20,100][(k//4)%4]))
        f.write('---\n')
