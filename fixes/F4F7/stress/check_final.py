#!/usr/bin/env python3
"""Completeness / quiescence oracle on harness logs (the harness itself has no end-of-run tree oracle).
For every execution with outcome ok, using the LAST `- state` dump (taken after the last note operation returned):
  Q1 every live note has disc=0;
  Q2 parent/children are consistent (c in children(p) <=> parent(c)=p) and name live notes only;
  Q3 a notified note has no children and a note whose parent is notified is notified (nothing hangs under a notified note);
  Q4 completeness (C08): for every nsync_note_notify (X) that returned, every live note that descends from X in the
     creation forest (pre tree + nsync_note_new calls that returned) is notified.  Frees never remove ancestry between
     survivors (adoption), so this is what the header promises whatever the interleaving.
usage: check_final.py <logdir>
"""
import sys, glob, re, collections
bad = collections.Counter(); n_ok = 0; first = {}
def check(lines, begin):
    global n_ok
    creat_parent = {}; notified_calls = []; pend_new = {}; pend_notify = {}
    last_dump = []; cur_dump = []; indump = False
    for l in lines:
        t = l.split()
        if len(t) >= 3 and t[0] == '-' and t[1] == 'state':
            if not indump: cur_dump = []; indump = True
            cur_dump.append(t)
            continue
        if indump: last_dump = cur_dump; indump = False
        if len(t) >= 3 and t[1] == 'call' and t[2] == 'nsync_note_new': pend_new[t[0]] = t[3]
        elif len(t) >= 4 and t[1] == 'ret' and t[2] == 'nsync_note_new':
            if t[3] != 'NULL': creat_parent[t[3]] = pend_new.get(t[0], '-')
        elif len(t) >= 4 and t[1] == 'call' and t[2] == 'nsync_note_notify': pend_notify[t[0]] = t[3]
        elif len(t) >= 3 and t[1] == 'ret' and t[2] == 'nsync_note_notify': notified_calls.append(pend_notify[t[0]])
    if indump: last_dump = cur_dump
    st = {}
    for t in last_dump:
        kv = dict(x.split('=', 1) for x in t[3:])
        ch = kv['children'][1:-1]
        st[t[2]] = dict(parent=kv['parent'], children=[c for c in ch.split(',') if c], disc=int(kv['disc']), notified=int(kv['notified']))
    errs = []
    for n, s in st.items():
        if s['disc'] != 0: errs.append('Q1 %s disc=%d' % (n, s['disc']))
        if s['parent'] != '-' and (s['parent'] not in st or n not in st[s['parent']]['children']): errs.append('Q2 %s parent %s' % (n, s['parent']))
        for c in s['children']:
            if c not in st or st[c]['parent'] != n: errs.append('Q2 %s child %s' % (n, c))
        if s['notified'] and s['children']: errs.append('Q3 notified %s has children %s' % (n, s['children']))
    def anc(x):
        out = []
        while creat_parent.get(x, '-') != '-': x = creat_parent[x]; out.append(x)
        return out
    nset = set(notified_calls)
    for n, s in st.items():
        if not s['notified'] and any(a in nset for a in anc(n)): errs.append('Q4 %s not notified although an ancestor was notified' % n)
    n_ok += 1
    for e in errs:
        bad[e.split()[0]] += 1
        first.setdefault(e.split()[0], (begin, e))
for fn in sorted(glob.glob(sys.argv[1] + '/log.*')):
    buf = []; begin = None
    for l in open(fn, errors='replace'):
        if l.startswith('# begin'): buf = []; begin = l.strip()
        elif l.startswith('# outcome'):
            if l.split()[2] == 'ok': check(buf, begin)
        else: buf.append(l)
print('final-state check: %d ok executions examined, violations: %s' % (n_ok, dict(bad) or 'none'))
for k, (b, e) in first.items(): print('  first', k, ':', e, '|', b[:90])
