import sys
# mkcorpus.py out nexec file...
out=sys.argv[1]; n=int(sys.argv[2])
with open(out,'w') as f:
    for cf in sys.argv[3:]:
        lines=[l.rstrip('\n') for l in open(cf) if l.strip() and not l.startswith('#')]
        f.write('\n'.join(lines)+'\n')
        for k in range(n):
            f.write('exec seed=%d strategy=%d tick=0\n'%(100000+k,k%4))
        f.write('---\n')
