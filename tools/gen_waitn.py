"""Scenario generator for the WaitN layer (property C11 and the nsync_wait_n half of C13).  Same
conventions as gen.py / gen_note.py: every random choice derives from the random.Random passed in; a
scenario is a block of text understood by harness/scen/scen.c.

fam_waitn(rng)   1-2 nsync_wait_n callers (sometimes a third caller through nsync_note_wait /
                 nsync_counter_wait) over 1..5 objects of mixed kinds cv<i> / n<i> / k<i> created in the
                 `pre` line (so both the on-stack (count <= 4) and the malloc'ed (count = 5) record
                 arrays), with and without a mutex, deadlines inf | p<ns> | m<ns> | z, and wakers:
                 notify n<i>, ctr_add k<i> -1 (never below zero, never an increment: API contract),
                 signal / broadcast cv<i>.  Notes have no parent; their own deadlines are inf, future,
                 or past (lazy expiry inside nsync_note_notified_deadline_).  Not generated: a note
                 created with a deadline <= 0 (its `notified` flag is never set although every entry
                 point treats it as notified: the harness oracles `waitn-ready` / `notify-post` /
                 `note-wait` flag that, see Props/C11.lean), and two nsync_wait_n calls by the same fiber
                 (the harness's plain-access check reports the owner's re-initialisation of the reused
                 stack slot, `nw[i].tag = ...`, as `dead-object`: a false positive of the harness).
                 A caller without deadline terminates if one of its notes is notified / expires or one
                 of its counters reaches zero under every schedule; otherwise (only condition variables
                 could wake it, and a signal may come before the wait) the scenario is marked
                 `expect stuck-ok`.
fam_waitn_f3(rng) the shape that exposed defect F3 (cv_dequeue without a membership check; repaired: this family
                 now exercises the walk over pcv->waiters and the wait loop of cv_dequeue): callers with
                 short deadlines on condition variables racing signallers / broadcasters.

Usage as a script:  gen_waitn.py <seed> <n_scenarios> <n_execs> <out.batch> [family]
"""
import random
import sys


def execs(rng, n, tick_choices=(0, 20, 100, 300)):
    out = []
    for _ in range(n):
        out.append("exec seed=%d strategy=%d tick=%d" % (rng.randrange(1, 1 << 30), rng.choice([0, 0, 1, 2, 3]), rng.choice(tick_choices)))
    return out


CALL_DL = ["inf", "inf", "p1000", "p60000", "p3000000", "m5", "z"]
NOTE_DL = ["inf", "inf", "inf", "p2000", "p50000", "m7"]


def fam_waitn(rng):
    ncv = rng.choice([0, 1, 1, 2, 3])
    nnote = rng.choice([0, 1, 1, 2, 3])
    nctr = rng.choice([0, 1, 1, 2])
    if ncv + nnote + nctr == 0:
        nnote = 1
    note_dl = [rng.choice(NOTE_DL) for _ in range(nnote)]
    ctr_init = [rng.choice([0, 1, 1, 2, 3]) for _ in range(nctr)]
    pool = ["cv%d" % i for i in range(ncv)] + ["n%d" % i for i in range(nnote)] + ["k%d" % i for i in range(nctr)]
    pre = ["note_new n%d - %s" % (i, note_dl[i]) for i in range(nnote)] + ["ctr_new k%d %d" % (i, ctr_init[i]) for i in range(nctr)]
    lines = ["sem %s" % rng.choice(["counting", "binary"]), "objs mu=2 cv=%d var=0" % ncv]
    if pre:
        lines.append("pre " + " ; ".join(pre))
    # wakers first (so that we know what is certain to become ready)
    fibers = []
    sure = set()   # objects that become ready under every schedule
    for i in range(nnote):
        if note_dl[i] != "inf":
            sure.add("n%d" % i)
    for i in range(nctr):
        if ctr_init[i] == 0:
            sure.add("k%d" % i)
    budget = list(ctr_init)
    for _ in range(rng.choice([1, 2, 2, 3])):
        ops = ["yield"] * rng.randrange(0, 4)
        for _ in range(rng.choice([1, 1, 2, 3])):
            kind = rng.choice(["cv", "cv", "note", "ctr"])
            if kind == "cv" and ncv:
                ops.append("%s cv%d" % (rng.choice(["signal", "broadcast"]), rng.randrange(ncv)))
            elif kind == "note" and nnote:
                n = rng.randrange(nnote)
                ops.append(rng.choice(["notify n%d", "notify n%d", "is_notified n%d"]) % n)
                if ops[-1].startswith("notify"):
                    sure.add("n%d" % n)
            elif kind == "ctr" and nctr:
                k = rng.randrange(nctr)
                if budget[k] > 0:
                    budget[k] -= 1
                    ops.append("ctr_add k%d -1" % k)
                    if budget[k] == 0:
                        sure.add("k%d" % k)
                else:
                    ops.append(rng.choice(["ctr_value k%d", "ctr_add k%d 0"]) % k)
            if rng.random() < 0.3:
                ops.append("yield")
        if len(ops) > 0 and any(not o.startswith("yield") for o in ops):
            fibers.append("fiber " + " ; ".join(ops))
    stuck_ok = False
    for c in range(rng.choice([1, 1, 2])):
        cnt = rng.choice([1, 2, 2, 3, 4, 5, 5])
        cnt = min(cnt, len(pool))
        objs = rng.sample(pool, cnt)
        dl = rng.choice(CALL_DL)
        if dl == "inf" and not any(o in sure for o in objs):
            stuck_ok = True
        has_cv = any(o.startswith("cv") for o in objs)
        with_mu = rng.random() < (0.8 if has_cv else 0.3)
        if with_mu:
            mu = rng.choice([0, 0, 1])
            rd = rng.random() < 0.25
            ops = ["%s mu%d" % ("rlock" if rd else "lock", mu), "waitn mu%d %s %s" % (mu, dl, " ".join(objs)),
                   "%s mu%d" % ("runlock" if rd else "unlock", mu)]
        else:
            ops = ["waitn - %s %s" % (dl, " ".join(objs))]
        fibers.append("fiber " + " ; ".join(["yield"] * rng.randrange(0, 2) + ops))
    if rng.random() < 0.3 and (nnote or nctr):
        dl = rng.choice(CALL_DL)
        if nnote and (not nctr or rng.random() < 0.5):
            n = rng.randrange(nnote)
            fibers.append("fiber note_wait n%d %s" % (n, dl))
            if dl == "inf" and "n%d" % n not in sure:
                stuck_ok = True
        else:
            k = rng.randrange(nctr)
            fibers.append("fiber ctr_wait k%d %s" % (k, dl))
            if dl == "inf" and "k%d" % k not in sure:
                stuck_ok = True
    rng.shuffle(fibers)
    lines += fibers
    if stuck_ok:
        lines.append("expect stuck-ok")
    return lines


def fam_waitn_f3(rng):
    lines = ["sem %s" % rng.choice(["counting", "binary"]), "objs mu=1 cv=2 var=0", "pre note_new n0 - %s" % rng.choice(["inf", "p3000"])]
    for _ in range(rng.choice([1, 2])):
        objs = rng.choice(["cv0", "cv0 cv1", "cv1 cv0", "cv0 n0", "n0 cv0"])
        dl = rng.choice(["p1000", "p5000", "p20000", "inf"])
        ops = ["lock mu0", "waitn mu0 %s %s" % (dl, objs), "unlock mu0"]
        lines.append("fiber " + " ; ".join(ops))
    for _ in range(rng.choice([1, 2])):
        lines.append("fiber " + " ; ".join(["yield"] * rng.randrange(0, 4) + [rng.choice(["broadcast cv0", "signal cv0", "broadcast cv1", "signal cv0 ; signal cv0"])]))
    lines.append("fiber yield ; yield ; notify n0 ; broadcast cv0 ; broadcast cv1")
    lines.append("expect stuck-ok")
    return lines


FAMILIES = {"waitn": fam_waitn, "waitn_f3": fam_waitn_f3}


def make_batch(path, seed, n_scen, n_exec, family="waitn"):
    rng = random.Random(seed)
    with open(path, "w") as f:
        for _ in range(n_scen):
            lines = FAMILIES[family](rng)
            f.write("\n".join(lines) + "\n" + "\n".join(execs(rng, n_exec)) + "\n---\n")


if __name__ == "__main__":
    if len(sys.argv) < 5:
        sys.stderr.write(__doc__)
        sys.exit(2)
    make_batch(sys.argv[4], int(sys.argv[1]), int(sys.argv[2]), int(sys.argv[3]), sys.argv[5] if len(sys.argv) > 5 else "waitn")
