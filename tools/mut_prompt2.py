import sys,subprocess
pid=sys.argv[1]; avoid=sys.argv[2]
base=subprocess.run(['python3','/tmp/mut_prompt.py',pid],capture_output=True,text=True).stdout
base=base.replace("/tmp/mut_%s_out/"%pid,"/tmp/mut_%sb_out/"%pid).replace("/tmp/mut_%s "%pid,"/tmp/mut_%sb "%pid).replace("/tmp/mut_%s &&"%pid,"/tmp/mut_%sb &&"%pid).replace("/tmp/mut_%s ("%pid,"/tmp/mut_%sb ("%pid).replace("inside /tmp/mut_%s is"%pid,"inside /tmp/mut_%sb is"%pid)
base=base.replace("/tmp/mut_%s"%pid+" ","/tmp/mut_%sb "%pid)
print(base+"\n\nADDITIONAL CONSTRAINT: a previous attempt already produced this change, so yours must be of a DIFFERENT kind, in a different function and exercising a different mechanism: "+avoid+"\n")
