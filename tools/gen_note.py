"""Scenario generator for the Note layer (properties C08, C09, C19 note half).  Same conventions as
gen.py: every random choice derives from the random.Random passed in; a scenario is a block of text
understood by harness/scen/scen.c.

fam_note(rng)        forest of depth <= 3 built in the `pre` line, 2-4 fibers of
                     notify / is_notified / note_wait / note_new child / note_free / note_expiry.
                     The scenarios respect the API contract (a freed note is used by the freeing fiber
                     only) and stay clear of the two known defects of note.c, so every execution must be
                     accepted by the Note acceptor with equal forest digests:
                       F4  nsync_note_free (c) of a note with children concurrent with a notification of
                           an ancestor of c (lost notification + notifier stuck in WAIT_FOR_NO_CHILDREN);
                       F7  two threads disconnecting the same note n (notify (n) twice, or pollers after
                           n's deadline) concurrent with nsync_note_free (parent of n) (use after free).
                     Mode "leaf": notifications and deadlines everywhere, only notes that never have
                     children are freed.  Mode "adopt": notes with children are freed (adoption); no
                     deadline can fire, nobody notifies an ancestor of a freed note, and each note is
                     notified by at most one fiber.
fam_note_f4(rng)     the F4 shape (directed; outcome `stuck` under some schedules).
fam_note_f7(rng)     the F7 shape (directed; outcome `oracle dead-object` under some schedules).

Usage as a script:  gen_note.py <seed> <n_scenarios> <n_execs> <out.batch> [family] [failmalloc]
"""
import random
import sys

HDR = "objs mu=0 cv=0 var=0 once=0 sem=0"


def execs(rng, n, tick_choices=(0, 20, 100, 300), extra=""):
    out = []
    for _ in range(n):
        out.append("exec seed=%d strategy=%d tick=%d%s" % (rng.randrange(1, 1 << 30), rng.choice([0, 0, 1, 2, 3]), rng.choice(tick_choices), extra))
    return out


def build_tree(rng, nn, deadlines):
    """parent[i] for notes 0..nn-1, depth <= 3 (root = depth 1); returns (parent, depth, pre ops)."""
    parent, depth, ops = [], [], []
    for i in range(nn):
        cands = [j for j in range(i) if depth[j] < 3]
        if i == 0 or not cands or rng.random() < 0.15:
            p, d = None, 1
        else:
            p = rng.choice(cands)
            d = depth[p] + 1
        parent.append(p)
        depth.append(d)
        ops.append("note_new n%d %s %s" % (i, "n%d" % p if p is not None else "-", rng.choice(deadlines)))
    return parent, depth, ops


def ancestors(parent, i):
    out = []
    while parent[i] is not None:
        i = parent[i]
        out.append(i)
    return out


def fam_note(rng):
    mode = rng.choice(["leaf", "leaf", "adopt"])
    nn = rng.choice([3, 4, 5, 6])
    if mode == "leaf":
        dls = ["inf", "inf", "inf", "p1000", "p40000", "p2000000", "m5", "m70000"]
        if rng.random() < 0.15:
            dls.append("z")
    else:
        dls = ["inf"]
    parent, depth, pre = build_tree(rng, nn, dls)
    has_child = [any(parent[j] == i for j in range(nn)) for i in range(nn)]
    nf = rng.choice([2, 3, 3, 4])
    # who may free what: each freed note belongs to exactly one fiber, nobody else names it
    freeable = [i for i in range(nn) if (mode == "adopt" or not has_child[i])]
    rng.shuffle(freeable)
    nfree = rng.choice([0, 1, 1, 2]) if mode == "leaf" else rng.choice([1, 1, 2])
    freed = freeable[:nfree]
    owner = {n: rng.randrange(nf) for n in freed}
    # two freed notes on one ancestor chain are freed by the SAME fiber: nsync_note_free (child) concurrent with
    # nsync_note_free (ancestor) is the free/free variant of defect F4 (family note_f4b)
    for a in freed:
        for b in freed:
            if a != b and a in ancestors(parent, b):
                owner[b] = owner[a]
    # notes under which new children may be created: never a freed leaf (it must stay a leaf)
    shared = [i for i in range(nn) if i not in freed]
    forbidden_notify = set()
    if mode == "adopt":
        for n in freed:
            forbidden_notify.update(ancestors(parent, n))
    notifier = {}  # adopt mode: note -> the only fiber that may notify it
    fresh = nn
    lines = ["sem %s" % rng.choice(["counting", "binary"]), HDR, "pre " + " ; ".join(pre)]
    # notes whose expiry time is zero (deadline z, or created under an already notified parent): they
    # count as notified although the flag stays 0, and the harness oracles look at the flag
    born = [False] * nn
    zero_notes = set()
    for i, op in enumerate(pre):
        d = op.split()[-1]
        if parent[i] is not None and born[parent[i]]:
            born[i] = True
            zero_notes.add(i)
        elif d == "z":
            born[i] = True
            zero_notes.add(i)
        elif d.startswith("m"):
            born[i] = True
    for f in range(nf):
        ops = []
        mine = [n for n in freed if owner[n] == f]
        own_new = []
        waited = False
        for _ in range(rng.choice([1, 2, 3, 4])):
            pool = shared + own_new + mine
            if not pool:
                break
            n = rng.choice(pool)
            kind = rng.choice(["notify", "notify", "is_notified", "is_notified", "note_wait", "note_new", "note_expiry", "yield"])
            if kind == "notify":
                if n in zero_notes or n in own_new:
                    continue  # (a note created by a fiber may be born under a notified parent)
                if mode == "adopt":
                    if n in forbidden_notify or notifier.setdefault(n, f) != f:
                        continue
                ops.append("notify n%d" % n)
            elif kind == "is_notified":
                ops.append("is_notified n%d" % n)
            elif kind == "note_wait":
                if n in zero_notes or n in own_new:
                    continue
                if waited:
                    continue  # one wait per fiber: the harness reuses the stack slot of the record
                waited = True
                ops.append("note_wait n%d %s" % (n, rng.choice(["p500", "p30000", "p3000000", "m5", "z"] if mode == "leaf" else ["p500", "p30000", "z"])))
            elif kind == "note_new":
                if fresh >= 14 or n in freed:
                    continue
                dl = rng.choice(dls)
                ops.append("note_new n%d n%d %s" % (fresh, n, dl))
                own_new.append(fresh)
                fresh += 1
            elif kind == "note_expiry":
                ops.append("note_expiry n%d" % n)
            else:
                ops.append("yield")
        for n in mine:
            ops.insert(rng.randrange(len(ops) + 1), "note_free n%d" % n)
        # ops on a note after its free are skipped by the interpreter (slot is NULL): harmless
        if not ops:
            ops = ["yield"]
        lines.append("fiber " + " ; ".join(ops))
    return lines


def fam_note_f4(rng):
    """n0 -> n1 -> n2: notify (n0) || free (n1).  Under some schedules notify (n0) never returns."""
    lines = ["sem %s" % rng.choice(["counting", "binary"]), HDR,
             "pre note_new n0 - inf ; note_new n1 n0 inf ; note_new n2 n1 inf",
             "fiber notify n0", "fiber note_free n1"]
    if rng.random() < 0.5:
        lines.append("fiber is_notified n2")
    return lines


def fam_note_f4b(rng):
    """The free/free variant of F4: nsync_note_free (parent) concurrent with nsync_note_free (child that has
    children): the child's free re-parents the grandchildren under the parent whose child-scan is already over;
    the parent's free waits for 'no children' forever.  Outcome `stuck` under some schedules."""
    ng = rng.choice([1, 2, 3])
    pre = ["note_new n0 - inf", "note_new n1 n0 inf"] + ["note_new n%d n1 inf" % (2 + i) for i in range(ng)]
    lines = ["sem %s" % rng.choice(["counting", "binary"]), HDR, "pre " + " ; ".join(pre)]
    lines.append("fiber " + " ; ".join(["yield"] * rng.randrange(0, 3) + ["note_free n0"]))
    lines.append("fiber " + " ; ".join(["yield"] * rng.randrange(0, 3) + ["note_free n1"]))
    return lines


def fam_note_f7(rng):
    """n0 -> n1: notify (n1) || notify (n1) || free (n0).  Under some schedules the second notifier
    locks the mutex of the freed n0."""
    lines = ["sem %s" % rng.choice(["counting", "binary"]), HDR,
             "pre note_new n0 - inf ; note_new n1 n0 %s" % rng.choice(["inf", "m5"][:1]),
             "fiber notify n1", "fiber %s n1" % rng.choice(["notify", "notify"]), "fiber note_free n0"]
    return lines


def fam_note_wc(rng):
    """C13 (bookkeeping of a note wait is not touched after the call can have returned): waiters on n0 whose calls
    end for ANOTHER reason (their own short deadline) while n0 is being notified and the notifier has to wait for
    n0's children, which other threads are notifying / freeing at the same moment (WAIT_FOR_NO_CHILDREN releases
    n0's mutex in the middle of the notification).  Respects the API contract (a freed note is used by the freeing
    fiber only; leaves only are freed)."""
    nch = rng.choice([1, 2, 3])
    pre = ["note_new n0 - %s" % rng.choice(["inf", "inf", "p3000"])] + ["note_new n%d n0 inf" % (1 + c) for c in range(nch)]
    lines = ["sem %s" % rng.choice(["counting", "binary"]), HDR, "pre " + " ; ".join(pre)]
    for _ in range(rng.choice([1, 2, 2, 3])):
        lines.append("fiber " + " ; ".join(["yield"] * rng.randrange(0, 3) + ["note_wait n0 %s" % rng.choice(["p500", "p1000", "p3000", "p10000", "inf"])]))
    lines.append("fiber " + " ; ".join(["yield"] * rng.randrange(0, 4) + ["notify n0"]))
    for c in range(nch):
        lines.append("fiber " + " ; ".join(["yield"] * rng.randrange(0, 4) + [rng.choice(["notify n%d", "notify n%d", "note_free n%d"]) % (1 + c)]))
    return lines


FAMILIES = {"note_wc": fam_note_wc, "note": fam_note, "note_f4": fam_note_f4, "note_f7": fam_note_f7}


def make_batch(path, seed, plan, extra=""):
    """plan: list of (family, n_scenarios, n_execs).  Returns list of (family, scenario lines)."""
    rng = random.Random(seed)
    blocks = []
    with open(path, "w") as f:
        for fam, ns, ne in plan:
            for _ in range(ns):
                lines = FAMILIES[fam](rng)
                blocks.append((fam, lines))
                f.write("\n".join(lines) + "\n" + "\n".join(execs(rng, ne, extra=extra)) + "\n---\n")
    return blocks


if __name__ == "__main__":
    seed, ns, ne, out = int(sys.argv[1]), int(sys.argv[2]), int(sys.argv[3]), sys.argv[4]
    fam = sys.argv[5] if len(sys.argv) > 5 else "note"
    extra = (" failmalloc=%s" % sys.argv[6]) if len(sys.argv) > 6 else ""
    make_batch(out, seed, [(fam, ns, ne)], extra)
