"""Shared machinery of ./check: fingerprinting, caches, builds, Lean audit, log replay, evidence."""
import fcntl, hashlib, json, os, re, shutil, subprocess, sys, time

VERIF = os.path.dirname(os.path.dirname(os.path.abspath(__file__)))
REPO = os.environ.get("VERIF_REPO", "/repo")
CACHE = os.path.join(VERIF, ".cache")
LEAN = os.path.join(VERIF, "lean")
ALLOWED_AXIOMS = {"propext", "Classical.choice", "Quot.sound"}
FORBIDDEN = re.compile(r"\b(sorry|admit|native_decide|bv_decide|implemented_by)\b|^\s*axiom\s|^\s*unsafe\s|maxHeartbeats\s+0\b", re.M)


def sh(cmd, **kw):
    return subprocess.run(cmd, shell=isinstance(cmd, str), capture_output=True, text=True, **kw)


class Lock:
    def __init__(self, name):
        os.makedirs(CACHE, exist_ok=True)
        self.path = os.path.join(CACHE, name + ".lock")

    def __enter__(self):
        self.f = open(self.path, "w")
        fcntl.flock(self.f, fcntl.LOCK_EX)
        return self

    def __exit__(self, *a):
        fcntl.flock(self.f, fcntl.LOCK_UN)
        self.f.close()


def tree_hash(paths):
    h = hashlib.sha256()
    for root in paths:
        if os.path.isfile(root):
            h.update(root.encode()); h.update(open(root, "rb").read()); continue
        for d, dirs, files in sorted(os.walk(root)):
            dirs.sort()
            if ".lake" in dirs: dirs.remove(".lake")
            for f in sorted(files):
                p = os.path.join(d, f)
                h.update(p.encode())
                try:
                    h.update(open(p, "rb").read())
                except OSError:
                    pass
    return h.hexdigest()[:16]


def repo_fingerprint():
    return tree_hash([os.path.join(REPO, d) for d in ("internal", "public", "platform")] + [os.path.join(REPO, "CMakeLists.txt")])


def harness_fingerprint():
    return tree_hash([os.path.join(VERIF, "harness")])


def cache_dir():
    """Build products for the current (/repo tree, harness) pair."""
    key = repo_fingerprint() + "-" + harness_fingerprint()
    d = os.path.join(CACHE, "b-" + key)
    return d


def prune_cache(keep):
    try:
        ents = [e for e in os.listdir(CACHE) if e.startswith("b-")]
    except FileNotFoundError:
        return
    ents = sorted(ents, key=lambda e: os.path.getmtime(os.path.join(CACHE, e)))
    for e in ents[:-3]:
        if os.path.join(CACHE, e) != keep:
            shutil.rmtree(os.path.join(CACHE, e), ignore_errors=True)


def build_harness():
    """Build vfh / vfh_futex from the current working tree of /repo (cached by content hash)."""
    d = cache_dir()
    with Lock("harness"):
        if not os.path.exists(os.path.join(d, "vfh.ok")):
            os.makedirs(d, exist_ok=True)
            r = sh(["sh", os.path.join(VERIF, "harness", "build.sh"), d, REPO])
            if r.returncode != 0:
                return None, r.stdout + r.stderr
            open(os.path.join(d, "vfh.ok"), "w").write("ok")
            prune_cache(d)
        os.utime(d)
    return d, ""


def build_lean(targets=None):
    """Regenerate Gen/*.lean from /repo's current sources, then lake build of the library and the replay
    driver.  Returns (ok, output)."""
    with Lock("lean"):
        try:
            import gen_tables
            gen_tables.generate(REPO, LEAN)
        except Exception as ex:   # a source the extractor cannot read: the tie modules will then fail to build
            sys.stderr.write("gen_tables: %s\n" % ex)
        cmd = ["lake", "build"] + (targets or ["NsyncVerif", "replay"])
        r = sh(cmd, cwd=LEAN)
        return r.returncode == 0, r.stdout + r.stderr


def build_tie(modules):
    """Build the tie-lemma modules (they import the regenerated tables); returns {module: (ok, output)}."""
    res = {}
    with Lock("lean"):
        for m in modules:
            r = sh(["lake", "build", m], cwd=LEAN)
            res[m] = (r.returncode == 0, (r.stdout + r.stderr)[-500:])
    return res


def lean_sources():
    out = []
    for d, dirs, files in os.walk(LEAN):
        if ".lake" in dirs: dirs.remove(".lake")
        for f in files:
            if f.endswith(".lean"):
                out.append(os.path.join(d, f))
    return sorted(out)


def strip_comments(text):
    text = re.sub(r"/-.*?-/", "", text, flags=re.S)
    text = re.sub(r"--[^\n]*", "", text)
    return text


def grep_forbidden():
    hits = []
    for p in lean_sources():
        t = strip_comments(open(p).read())
        for m in FORBIDDEN.finditer(t):
            hits.append("%s: %s" % (os.path.relpath(p, VERIF), m.group(0).strip()))
        if "partial def" in t and "/Driver/" not in p:
            hits.append("%s: partial def" % os.path.relpath(p, VERIF))
    return hits


def audit_axioms(imports, theorems):
    """#print axioms for each theorem; returns {name: [axioms] | None if missing}."""
    src = "".join("import %s\n" % i for i in imports) + "".join("#print axioms %s\n" % t for t in theorems)
    path = os.path.join(CACHE, "audit_%d.lean" % os.getpid())
    open(path, "w").write(src)
    with Lock("lean"):
        r = sh(["lake", "env", "lean", path], cwd=LEAN)
    os.unlink(path)
    out = r.stdout + r.stderr
    res = {}
    for t in theorems:
        m = re.search(r"'%s' depends on axioms: \[([^\]]*)\]" % re.escape(t), out)
        if m:
            res[t] = [a.strip() for a in m.group(1).replace("\n", " ").split(",") if a.strip()]
        elif re.search(r"'%s' does not depend on any axioms" % re.escape(t), out):
            res[t] = []
        else:
            res[t] = None
    return res, out


def replay(log_paths, layers, block_layers=None):
    """Feed harness logs to the Lean driver; returns (summary dict, rejects list, coverage dict).
    block_layers: optional {block number: [layers]} — executions of those blocks are replayed through
    the given acceptors instead of `layers` (a `# layers …` line is inserted after their `# begin`)."""
    exe = os.path.join(LEAN, ".lake", "build", "bin", "replay")
    if block_layers:
        mp = os.path.join(CACHE, "blockmap_%d.txt" % os.getpid())
        with open(mp, "w") as f:
            for b, ls in block_layers.items():
                f.write("%d %s\n" % (b, " ".join(ls)))
        prog = 'NR==FNR{k=$1; $1=""; m[k]=substr($0,2); next} {print} /^# begin block=/{b=$3; sub("block=","",b); if (b in m) print "# layers " m[b]}'
        cat = subprocess.Popen(["awk", prog, mp] + log_paths, stdout=subprocess.PIPE)
    else:
        cat = subprocess.Popen(["cat"] + log_paths, stdout=subprocess.PIPE)
    r = subprocess.run([exe] + layers, stdin=cat.stdout, capture_output=True, text=True)
    cat.wait()
    if block_layers:
        try: os.unlink(mp)
        except OSError: pass
    rejects, cov, summary = [], {}, {}
    for line in r.stdout.splitlines():
        if line.startswith("REJECT") or line.startswith("ORACLE"):
            rejects.append(line)
        elif line.startswith("COV "):
            _, k, n = line.split(" ")
            cov[k] = int(n)
        elif line.startswith("SUMMARY"):
            for kv in line.split()[1:]:
                k, v = kv.split("=")
                summary[k] = int(v)
    if not summary:
        summary = {"error": r.stderr[-400:]}
    return summary, rejects, cov


def parse_outcomes(log_paths):
    """Per execution: (block, exec line, outcome, violation text, schedule)."""
    res = []
    for p in log_paths:
        cur = None
        for line in open(p, errors="replace"):
            if line.startswith("# begin"):
                m = re.match(r"# begin block=(\d+) (exec .*)", line.strip())
                cur = {"block": int(m.group(1)), "exec": m.group(2), "outcome": None, "violation": None, "sched": None, "panic": None}
            elif cur is None:
                continue
            elif line.startswith("# sched"):
                cur["sched"] = line.strip()[8:]
            elif line.startswith("# outcome"):
                m = re.match(r"# outcome (\S+)(?: steps=(\d+))?(?: violation=(.*))?", line.strip())
                if cur["outcome"] is None or m.group(1) in ("panic", "crash"):
                    cur["outcome"] = m.group(1)
                if m.group(3):
                    cur["violation"] = m.group(3)
            elif " panic " in line:
                cur["panic"] = line.strip()
            elif line.startswith("# endexec"):
                res.append(cur); cur = None
    return res


def write_evidence(pid, ev):
    os.makedirs(os.path.join(VERIF, "evidence"), exist_ok=True)
    path = os.path.join(VERIF, "evidence", pid + ".json")
    json.dump(ev, open(path, "w"), indent=1, sort_keys=True)
    return path


def load_known():
    try:
        return json.load(open(os.path.join(VERIF, "known_findings.json")))["findings"]
    except FileNotFoundError:
        return []
