"""Scenario generators for the concurrent harness.  Every random choice derives from one
random.Random seeded by VERIF_SEED; a scenario is a block of text understood by harness/scen/scen.c."""
import random, re

DL_CHOICES = ["inf", "p1000", "p50000", "p2000000", "m5", "z"]


def execs(rng, n, tick_choices=(0, 20, 100, 300)):
    out = []
    for _ in range(n):
        out.append("exec seed=%d strategy=%d tick=%d" % (rng.randrange(1, 1 << 30), rng.choice([0, 0, 1, 2, 3]), rng.choice(tick_choices)))
    return out


def section(rng, mu, body, modes=("lock", "rlock", "trylock", "rtrylock")):
    m = rng.choice(modes)
    if m == "lock":
        return ["lock mu%d" % mu] + body(True) + ["unlock mu%d" % mu]
    if m == "rlock":
        return ["rlock mu%d" % mu] + body(False) + ["runlock mu%d" % mu]
    if m == "trylock":
        return ["trylock mu%d" % mu, "unlock_if mu%d" % mu]
    return ["rtrylock mu%d" % mu, "runlock_if mu%d" % mu]


def fam_core(rng):
    nf = rng.choice([2, 3, 3, 4])
    nmu = rng.choice([1, 1, 1, 2])
    lines = ["sem %s" % rng.choice(["counting", "binary"]), "objs mu=%d cv=0 var=2" % nmu, "var x0 0 mu0", "var x1 0 mu%d" % (nmu - 1)]
    for f in range(nf):
        ops = []
        for _ in range(rng.choice([1, 2, 2, 3])):
            mu = rng.randrange(nmu)
            def body(w, mu=mu):
                b = []
                if w and rng.random() < 0.7: b.append(rng.choice(["wr x%d %d" % (mu, rng.randrange(3)), "inc x%d" % mu]))
                if not w and rng.random() < 0.7: b.append("rd x%d" % mu)
                if rng.random() < 0.2: b.append("yield")
                return b
            ops += section(rng, mu, body)
        lines.append("fiber " + " ; ".join(ops))
    return lines


def fam_cv(rng):
    """Monitor pattern: waiters await x0 == 1 on cv0 under mu0 (writer or reader mode, timed or not, optionally
    cancellable by a note); setters make it true and wake.  Terminates under every schedule: the last setter
    broadcasts (a cancelled or timed-out waiter gives up)."""
    nw = rng.choice([1, 2, 2, 3])
    use_note = rng.random() < 0.35
    lines = ["sem %s" % rng.choice(["counting", "binary"]), "objs mu=1 cv=1 var=1", "var x0 0 mu0"]
    if use_note:
        lines.append("pre note_new n0 - %s" % rng.choice(["inf", "inf", "p3000", "p60000"]))
    for i in range(nw):
        dl = rng.choice(["inf", "inf", "p1000", "p80000", "m5"])
        rd = rng.random() < 0.35
        note = " n0" if use_note and rng.random() < 0.6 else ""
        ops = ["rlock mu0" if rd else "lock mu0", "await cv0 mu0 x0 1 %s%s" % (dl, note)]
        if rng.random() < 0.3: ops.append("signal cv0")
        ops.append("runlock mu0" if rd else "unlock mu0")
        lines.append("fiber " + " ; ".join(ops))
    ns = rng.choice([1, 1, 2])
    for i in range(ns):
        wake = "broadcast cv0" if i == ns - 1 else rng.choice(["signal cv0", "broadcast cv0"])
        if rng.random() < 0.5:
            ops = ["lock mu0", "wr x0 1", wake, "unlock mu0"]
        else:
            ops = ["lock mu0", "wr x0 1", "unlock mu0", wake]
        if rng.random() < 0.3: ops = ["yield"] * rng.randrange(1, 4) + ops
        lines.append("fiber " + " ; ".join(ops))
    if use_note and rng.random() < 0.7:
        lines.append("fiber " + " ; ".join(["yield"] * rng.randrange(0, 4) + ["notify n0"]))
    return lines


def fam_waitn_mon(rng):
    """C11: 'the mutex is released while waiting, AFTER registration on every object'.  Monitor pattern: the
    nsync_wait_n caller sets x0 under the mutex and waits (no deadline) on 1..5 objects of which only a condition
    variable will ever become ready; the signaller enters a conditional critical section on x0 == 1 — so it runs
    only once the caller has released the mutex inside nsync_wait_n — and signals under the mutex.  The wake-up
    can be missed only if the mutex was released before the registration on the cv."""
    k = rng.choice([1, 2, 3, 4, 5, 5, 5])
    pos = rng.randrange(k)
    objs = [rng.choice(["n0", "k0", "n0"]) for _ in range(k)]
    objs[pos] = "cv0"
    rd = rng.random() < 0.3
    lines = ["sem %s" % rng.choice(["counting", "binary"]), "objs mu=1 cv=1 var=1", "var x0 0 mu0", "cond c0 eq x0 1",
             "pre note_new n0 - inf ; ctr_new k0 1"]
    lines.append("fiber lock mu0 ; wr x0 1 ; unlock mu0 ; %s mu0 ; waitn mu0 inf %s ; %s mu0" % ("rlock" if rd else "lock", " ".join(objs), "runlock" if rd else "unlock")
                 if rd else "fiber lock mu0 ; wr x0 1 ; waitn mu0 inf %s ; unlock mu0" % " ".join(objs))
    if rd:
        # reader-mode caller: the flag is set in an earlier write section, so the signaller must ALSO wait for the
        # caller to be inside nsync_wait_n: it cannot tell; give the caller a deadline-free retry instead (skip rd)
        lines[-1] = "fiber lock mu0 ; wr x0 1 ; waitn mu0 inf %s ; unlock mu0" % " ".join(objs)
    churn = rng.random() < 0.5
    lines.append("fiber " + " ; ".join(["yield"] * rng.randrange(0, 3) + ["lock mu0", "muwait mu0 c0 inf", "broadcast cv0" if churn else rng.choice(["signal cv0", "broadcast cv0"]), "unlock mu0"]))
    if rng.random() < 0.3:
        lines.append("fiber yield ; is_notified n0 ; ctr_value k0")
    if churn:
        # a second nsync_wait_n caller registering on and deregistering from the same cv again and again (its deadline
        # has passed or is about to): whatever it does to the cv's state must not hide the other caller from the
        # waker.  The waker broadcasts (a signal may legitimately be consumed by this caller).
        lines.append("fiber " + " ; ".join(["yield"] * rng.randrange(0, 2) + ["waitn - %s cv0" % rng.choice(["p1", "p300", "p2000", "p1"]) for _ in range(rng.choice([3, 5, 8]))]))
    return lines


def fam_timed_contended(rng):
    """C15 / C05: timed waits (deadline already expired / about to expire / comfortably in the future; zero and
    pre-epoch values included) whose deadline passes while ANOTHER thread holds the mutex and whose condition is
    made true and then false again before the waiter can re-acquire: the timeout must still be delivered (every
    waiter has a finite deadline, so every execution terminates on a correct library)."""
    lines = ["sem %s" % rng.choice(["counting", "binary"]), "objs mu=1 cv=1 var=2", "var x0 0 mu0", "var x1 0 mu0",
             "cond c0 eq x0 1", "cond c1 eq x0 1 eq", "cond c2 ge x1 1"]
    for i in range(rng.choice([1, 2, 2, 3])):
        rd = rng.random() < 0.3
        dl = rng.choice(["p500", "p1000", "p3000", "p20000", "m5", "z", "neg", "p200000"])
        k = rng.choice(["mu", "mu", "mu", "cvw", "await"])
        w = {"mu": "muwait mu0 %s %s" % (rng.choice(["c0", "c0", "c1", "c2"]), dl), "cvw": "cvwait cv0 mu0 %s" % dl, "await": "await cv0 mu0 x0 1 %s" % dl}[k]
        lines.append("fiber " + " ; ".join(["yield"] * rng.randrange(0, 2) + ["rlock mu0" if rd else "lock mu0", w, "runlock mu0" if rd else "unlock mu0"]))
    for i in range(rng.choice([1, 1, 2])):
        ops = ["yield"] * rng.randrange(0, 3)
        for _ in range(rng.choice([1, 2, 3])):
            hold = ["yield"] * rng.randrange(0, 5)
            ops += ["lock mu0"] + hold + ["wr x0 1", "wr x1 1"] + (["signal cv0"] if rng.random() < 0.4 else []) + ["unlock mu0", "lock mu0", "wr x0 0", "wr x1 0", "unlock mu0"]
        lines.append("fiber " + " ; ".join(ops))
    return lines


def fam_muc_eqmix(rng):
    """C06: waiters whose conditions use DIFFERENT functions on equal / eq-equivalent arguments, all supplying the
    same condition_arg_eq (ca: x0 == 1, cb: x0 >= 1, cc: x1 == 1, cd: x1 >= 1), next to each other in the queue:
    they must not be treated as one condition.  The setters stop at x0 = 2, x1 = 2: the `==` waiters can never be
    satisfied (they have deadlines, or the scenario may legitimately block), every `>=` waiter must be woken by the
    nsync_mu_unlock that made its condition true (oracle muwait-missed at quiescence, stuck otherwise)."""
    lines = ["sem %s" % rng.choice(["counting", "binary"]), "objs mu=1 cv=0 var=2", "var x0 0 mu0", "var x1 0 mu0",
             "cond c0 eq x0 1 eq", "cond c1 ge x0 1 eq", "cond c2 eq x1 1 eq", "cond c3 ge x1 1 eq", "cond c4 ge x0 1"]
    n = rng.choice([2, 3, 3, 4])
    blocked_forever = False
    for i in range(n):
        c = rng.choice(["c0", "c1", "c1", "c2", "c3", "c4"]) if i else rng.choice(["c0", "c2"])
        if c in ("c0", "c2"):
            dl = rng.choice(["inf", "inf", "p400000", "p2000000"])
            blocked_forever = blocked_forever or dl == "inf"
        else:
            dl = "inf"
        rd = rng.random() < 0.3
        lines.append("fiber " + " ; ".join(["yield"] * rng.randrange(0, 2) + ["rlock mu0" if rd else "lock mu0", "muwait mu0 %s %s" % (c, dl), "runlock mu0" if rd else "unlock mu0"]))
    lines.append("fiber " + " ; ".join(["yield"] * rng.randrange(1, 4) + ["lock mu0", "wr x0 2", "unlock mu0"] + ["yield"] * rng.randrange(0, 2) + ["lock mu0", "wr x1 2", "unlock mu0"]))
    if rng.random() < 0.4:
        lines.append("fiber " + " ; ".join(["yield"] * rng.randrange(0, 3) + ["rlock mu0", "rd x0", "runlock mu0"]))
    if blocked_forever:
        lines.append("expect stuck-ok")
    return lines


def fam_cv_rwr(rng):
    """C04 ('if the thread signal picks holds the mutex as a reader, all waiting readers are woken'): waiters queue
    on the cv in a FIXED order — reader first, then readers and exactly one writer in any positions — each starting
    only after its predecessor sleeps (op after_blocked); then ONE nsync_cv_signal.  The first waiter is a reader, so
    the signal must wake every reader and may wake the writer: nobody may be left asleep."""
    n = rng.choice([3, 3, 4, 5])
    modes = ["R"] + ["R"] * (n - 2) + ["W"]
    tail = modes[1:]; rng.shuffle(tail); modes = ["R"] + tail
    lines = ["sem %s" % rng.choice(["counting", "binary"]), "objs mu=1 cv=1 var=1", "var x0 0 mu0"]
    for i, m in enumerate(modes):
        ops = (["after_blocked %d" % (i - 1)] if i else []) + (["rlock mu0", "await cv0 mu0 x0 1 inf", "runlock mu0"] if m == "R" else ["lock mu0", "await cv0 mu0 x0 1 inf", "unlock mu0"])
        lines.append("fiber " + " ; ".join(ops))
    inside = rng.random() < 0.5
    lines.append("fiber after_blocked %d ; " % (n - 1) + ("lock mu0 ; wr x0 1 ; signal cv0 ; unlock mu0" if inside else "lock mu0 ; wr x0 1 ; unlock mu0 ; signal cv0"))
    return lines


def fam_cancel_children(rng):
    """C05: as cancel_only, and the cancel note has children of its own that other threads notify / free while it
    is being notified: the notifier of n0 — possibly the waiter itself, through the lazy expiry — has to wait for
    them (WAIT_FOR_NO_CHILDREN releases n0's mutex in the middle of notify and may sleep).  Replayed through the
    SemWait acceptor only (CvFix and MuC treat the cancel note abstractly and assume the self-notify does not sleep)."""
    return fam_cancel_only(rng, children=True)


def fam_cancel_only(rng, children=False):
    """C05 / C13: waits that ONLY their cancel note (explicit notify, the note's own deadline, or a parent's) or
    their own deadline can end: nobody signals the cv or makes the condition true.  'Once the note is notified the
    call needs no further wake-up': a wait that misses the cancellation stays asleep (stuck)."""
    kind = rng.choice(["cv", "cv", "mu", "both"])
    parent = rng.random() < 0.3
    pre = []
    if parent:
        pre.append("note_new n1 - %s" % rng.choice(["inf", "p4000", "p70000"]))
        pre.append("note_new n0 n1 %s" % rng.choice(["inf", "inf", "p90000"]))
    else:
        pre.append("note_new n0 - %s" % rng.choice(["inf", "inf", "p4000", "p70000"]))
    lines = ["sem %s" % rng.choice(["counting", "binary"]), "objs mu=1 cv=1 var=1", "var x0 0 mu0", "cond c0 eq x0 1", "cond c1 eq x0 1 eq",
             "pre " + " ; ".join(pre)]
    for i in range(rng.choice([1, 2, 2, 3])):
        rd = rng.random() < 0.35
        dl = rng.choice(["inf", "inf", "inf", "p200000", "p1000"])
        k = kind if kind != "both" else rng.choice(["cv", "mu"])
        w = ("await cv0 mu0 x0 1 %s n0" % dl) if k == "cv" else ("muwait mu0 %s %s n0" % (rng.choice(["c0", "c1"]), dl))
        ops = ["yield"] * rng.randrange(0, 3) + ["rlock mu0" if rd else "lock mu0", w, "runlock mu0" if rd else "unlock mu0"]
        lines.append("fiber " + " ; ".join(ops))
    tgt = "n1" if parent and rng.random() < 0.5 else "n0"
    lines.append("fiber " + " ; ".join(["yield"] * rng.randrange(0, 5) + ["notify " + tgt]))
    if children:
        # the cancel note has children of its own that other threads notify / free while it is being notified: the
        # notifier of n0 then has to wait for them (WAIT_FOR_NO_CHILDREN releases n0's mutex in the middle of notify)
        nch = rng.choice([1, 2, 3])
        for i, l in enumerate(lines):
            if l.startswith("pre "):
                lines[i] = l + " ; " + " ; ".join("note_new n%d n0 inf" % (2 + c) for c in range(nch))
        for c in range(nch):
            lines.append("fiber " + " ; ".join(["yield"] * rng.randrange(0, 4) + [rng.choice(["notify n%d", "notify n%d", "note_free n%d"]) % (2 + c)]))
    if rng.random() < 0.3:
        lines.append("fiber " + " ; ".join(["yield"] * rng.randrange(0, 3) + ["lock mu0", "rd x0", "unlock mu0", "is_notified n0"]))
    return lines


def fam_cv_raw(rng):
    """Plain cvwait calls (Mesa: may return spuriously) with deadlines so nothing blocks for good."""
    nf = rng.choice([2, 3])
    lines = ["sem %s" % rng.choice(["counting", "binary"]), "objs mu=1 cv=1 var=1", "var x0 0 mu0"]
    for i in range(nf):
        rd = rng.random() < 0.4
        ops = ["rlock mu0" if rd else "lock mu0", "cvwait cv0 mu0 %s" % rng.choice(["p1000", "p30000", "m5", "z"]), "runlock mu0" if rd else "unlock mu0"]
        lines.append("fiber " + " ; ".join(ops))
    for i in range(rng.choice([1, 2])):
        lines.append("fiber " + " ; ".join(["yield"] * rng.randrange(0, 3) + [rng.choice(["signal cv0", "broadcast cv0", "lock mu0 ; signal cv0 ; unlock mu0"])]))
    return lines


def fam_muwait(rng):
    """Conditional critical sections: waiters block in nsync_mu_wait on conditions over x0/x1, setters
    make every condition true and leave with nsync_mu_unlock."""
    nw = rng.choice([1, 2, 2, 3])
    lines = ["sem %s" % rng.choice(["counting", "binary"]), "objs mu=1 cv=0 var=2", "var x0 0 mu0", "var x1 0 mu0",
             "cond c0 eq x0 1", "cond c1 eq x0 1 eq", "cond c2 eq x0 1 eq", "cond c3 ge x0 1", "cond c4 eq x1 1"]
    for i in range(nw):
        c = rng.choice(["c0", "c0", "c1", "c2", "c3", "c4"])
        dl = rng.choice(["inf", "inf", "inf", "p1000", "p60000", "m5"])
        rd = rng.random() < 0.35
        ops = ["rlock mu0" if rd else "lock mu0", "muwait mu0 %s %s" % (c, dl), "rd x0", "runlock mu0" if rd else "unlock mu0"]
        lines.append("fiber " + " ; ".join(ops))
    # setters: one sets x0, one sets x1 (or one does both)
    if rng.random() < 0.5:
        lines.append("fiber " + " ; ".join(["yield"] * rng.randrange(0, 3) + ["lock mu0", "wr x0 1", "wr x1 1", "unlock mu0"]))
    else:
        lines.append("fiber lock mu0 ; wr x0 1 ; unlock mu0")
        lines.append("fiber " + " ; ".join(["yield"] * rng.randrange(0, 3) + ["lock mu0", "wr x1 1", "unlock mu0"]))
    if rng.random() < 0.3:
        lines.append("fiber rlock mu0 ; rd x0 ; runlock mu0")
    return lines


def fam_debug(rng):
    lines = fam_core(rng) if rng.random() < 0.6 else fam_cv(rng)
    n = rng.choice([0, 1, 3, 4, 17, 40, 80])
    ops = []
    for _ in range(rng.choice([1, 2, 3])):
        ops.append(rng.choice(["dbg_muw mu0 %d", "dbg_muw mu0 %d", "dbg_mu mu0 %d"]) % n)
        if rng.random() < 0.5: ops.append("yield")
    lines.append("fiber " + " ; ".join(ops))
    if any(l.startswith("objs") and "cv=1" in l for l in lines):
        lines.append("fiber dbg_cvw cv0 %d ; yield ; dbg_cv cv0 %d" % (n, n))
    return lines


def fam_debug_cond(rng):
    """C16: the debug call comes from INSIDE a waiter's condition (a condition instrumented with a debug trace: legal,
    it neither changes nor depends on anything but the protected state), so it runs wherever the library evaluates
    conditions: in nsync_mu_wait itself and inside the unlock slow path of whoever releases the mutex.  Must not
    deadlock: the library may not hold its queue spinlock across the callback."""
    lines = ["sem %s" % rng.choice(["counting", "binary"]), "objs mu=1 cv=0 var=2", "var x0 0 mu0", "var x1 0 mu0",
             "cond c0 eq x0 1 %s" % rng.choice(["dbg", "eqdbg"]), "cond c1 ge x0 1 dbg", "cond c2 eq x0 2"]
    for _ in range(rng.choice([1, 2, 2, 3])):
        rd = rng.random() < 0.3
        lines.append("fiber " + " ; ".join(["yield"] * rng.randrange(0, 3) + ["rlock mu0" if rd else "lock mu0",
                     "muwait mu0 %s %s" % (rng.choice(["c0", "c0", "c1"]), rng.choice(["inf", "inf", "p200000"])), "runlock mu0" if rd else "unlock mu0"]))
    for _ in range(rng.choice([0, 1, 2])):
        lines.append("fiber " + " ; ".join(["yield"] * rng.randrange(0, 3) + ["lock mu0", "inc x1", "unlock mu0"]))
    lines.append("fiber " + " ; ".join(["yield"] * rng.randrange(0, 4) + ["lock mu0", "wr x0 1", "unlock mu0"]))
    if rng.random() < 0.5:
        lines.append("fiber " + " ; ".join(["yield"] * rng.randrange(0, 3) + ["dbg_muw mu0 %d" % rng.choice([4, 40, 80]), "yield", "dbg_mu mu0 40"]))
    return lines   # x0 goes to 1 and stays: every waiter's condition becomes and remains true, so nothing may block


def fam_waitn_cv(rng):
    """nsync_wait_n over cv objects with a mutex (reader or writer), racing signallers and deadlines."""
    lines = ["sem %s" % rng.choice(["counting", "binary"]), "objs mu=1 cv=2 var=1", "var x0 0 mu0"]
    for i in range(rng.choice([1, 2])):
        dl = rng.choice(["inf", "p1000", "p70000", "m5", "z"])
        objs = rng.choice(["cv0", "cv0 cv1", "cv1 cv0"])
        lines.append("fiber lock mu0 ; waitn mu0 %s %s ; unlock mu0" % (dl, objs))
    for i in range(rng.choice([1, 2])):
        lines.append("fiber " + " ; ".join(["yield"] * rng.randrange(0, 3) + [rng.choice(["broadcast cv0", "signal cv0", "broadcast cv1"])] ))
    lines.append("fiber yield ; yield ; broadcast cv0 ; broadcast cv1")
    lines.append("expect stuck-ok")
    return lines


def fam_waitn_atomic(rng):
    """C04 through nsync_wait_n: 'releasing the mutex and starting to wait is atomic with respect to wakers that hold
    the mutex'.  Waiters run the Mesa loop `while (x != 1) nsync_wait_n (mu, …, cv…)` WITHOUT deadline, the waker sets
    x and broadcasts while holding the mutex: a waiter that released the mutex before being queued on the cv misses
    the only wake-up and sleeps for ever (outcome stuck; termination is certain otherwise).  Other objects in the
    call (notes nobody notifies, counters that stay non-zero) only vary the enqueue order."""
    ncv = rng.choice([1, 2])
    lines = ["sem %s" % rng.choice(["counting", "binary"]), "objs mu=1 cv=%d var=1" % ncv, "var x0 0 mu0",
             "pre note_new n0 - inf ; ctr_new k0 2"]
    for _ in range(rng.choice([1, 2, 2, 3])):
        rd = rng.random() < 0.3
        objs = ["cv0"] + rng.sample(["n0", "k0"] + (["cv1"] if ncv == 2 else []), rng.choice([0, 0, 1, 2]))
        rng.shuffle(objs)
        lines.append("fiber " + " ; ".join(["yield"] * rng.randrange(0, 3) + ["rlock mu0" if rd else "lock mu0", "awaitn mu0 inf x0 1 " + " ".join(objs), "rd x0", "runlock mu0" if rd else "unlock mu0"]))
    lines.append("fiber " + " ; ".join(["yield"] * rng.randrange(0, 5) + ["lock mu0", "wr x0 1", "broadcast cv0", "unlock mu0"]))
    if rng.random() < 0.4:   # harmless extra wake-ups before the state changes (Mesa: the loop goes round again)
        lines.append("fiber " + " ; ".join(["yield"] * rng.randrange(0, 3) + [rng.choice(["signal cv0", "broadcast cv0", "lock mu0 ; signal cv0 ; unlock mu0"])]))
    return lines


def fam_waitn_sig(rng):
    """C13: nsync_wait_n on a condition variable with SHORT deadlines against a stream of signals: the calls end by
    timeout while a signaller is in the middle of waking the very record (its stack frame is reused by the next
    call at once).  Meant for the @ps variant (plain reads / writes of the records are scheduling points)."""
    ncall = rng.choice([5, 7])
    lines = ["sem %s" % rng.choice(["counting", "binary"]), "objs mu=1 cv=1 var=1", "var x0 0 mu0", "pre ctr_new k0 1"]
    for _ in range(rng.choice([1, 2])):
        ops = []
        for _ in range(ncall):
            ops += ["lock mu0", "waitn mu0 %s %s" % (rng.choice(["p100", "p300", "p1000"]), rng.choice(["cv0", "cv0 k0", "k0 cv0"])), "unlock mu0"]
        lines.append("fiber " + " ; ".join(ops))
    for _ in range(rng.choice([1, 2])):
        lines.append("fiber " + " ; ".join(["yield ; %s cv0" % rng.choice(["signal", "signal", "broadcast"])] * rng.choice([12, 18])))
    return lines


def fam_waitn_rep(rng):
    """C11 / C13: the same fiber calls nsync_wait_n repeatedly over the same objects (its stack records are
    re-used from call to call) while wakers make the objects ready during, between and after the calls: any
    registration left behind by a call is written to when the object is made ready later."""
    ncv = rng.choice([1, 2])
    lines = ["sem %s" % rng.choice(["counting", "binary"]), "objs mu=1 cv=%d var=1" % ncv, "var x0 0 mu0",
             "pre note_new n0 - inf ; note_new n1 - %s ; ctr_new k0 %d" % (rng.choice(["inf", "p60000", "p2000"]), rng.choice([1, 2]))]
    pool = ["cv0", "n0", "n1", "k0"] + (["cv1"] if ncv == 2 else [])
    for _ in range(rng.choice([1, 1, 2])):
        withmu = rng.random() < 0.5
        ops = ["lock mu0"] if withmu else []
        for _ in range(rng.choice([2, 3])):
            k = rng.choice([1, 2, 3, 4, 5])
            objs = [rng.choice(pool) for _ in range(k)]
            dl = rng.choice(["p1000", "p30000", "p90000", "m5", "p200000"])
            ops.append("waitn %s %s %s" % ("mu0" if withmu else "-", dl, " ".join(objs)))
            if rng.random() < 0.3: ops.append("yield")
        if withmu: ops.append("unlock mu0")
        lines.append("fiber " + " ; ".join(ops))
    wk = ["signal cv0", "broadcast cv0", "notify n0", "ctr_add k0 -1", "yield", "yield"] + (["broadcast cv1"] if ncv == 2 else [])
    for _ in range(rng.choice([1, 2])):
        ops = [rng.choice(wk) for _ in range(rng.choice([2, 3, 4]))]
        # the counter must not go below zero (API contract): at most one decrement per waker fiber, initial value >= 1 … keep one in total
        seen = False; out = []
        for o in ops:
            if o.startswith("ctr_add"):
                if seen: continue
                seen = True
            out.append(o)
        lines.append("fiber " + " ; ".join(out))
    # only one fiber may decrement
    dec = [i for i, l in enumerate(lines) if "ctr_add" in l]
    for i in dec[1:]:
        lines[i] = lines[i].replace("ctr_add k0 -1", "yield")
    if rng.random() < 0.5:
        lines.append("fiber lock mu0 ; wr x0 1 ; broadcast cv0 ; unlock mu0 ; notify n1")
    return lines


def fam_cv_rsignal(rng):
    """Wakers that do NOT hold the mutex in write mode (they signal while holding it in read mode, or
    after unlocking while others hold it) with readers coming and going and try-lock pollers: this is
    where wake_waiters transfers cv waiters to the mutex queue under the queue spinlock only."""
    lines = ["sem %s" % rng.choice(["counting", "binary"]), "objs mu=1 cv=1 var=1", "var x0 0 mu0"]
    for _ in range(rng.choice([1, 2, 3])):
        rd = rng.random() < 0.3
        lines.append("fiber %s mu0 ; await cv0 mu0 x0 1 %s ; %s mu0" % ("rlock" if rd else "lock", rng.choice(["inf", "p90000", "p2000"]), "runlock" if rd else "unlock"))
    wake = rng.choice(["broadcast cv0", "broadcast cv0", "signal cv0 ; signal cv0 ; broadcast cv0"])
    if rng.random() < 0.6:
        lines.append("fiber lock mu0 ; wr x0 1 ; unlock mu0 ; rlock mu0 ; %s ; runlock mu0" % wake)
    else:
        lines.append("fiber lock mu0 ; wr x0 1 ; unlock mu0 ; yield ; %s" % wake)
    for _ in range(rng.choice([1, 2, 3])):
        lines.append("fiber " + " ; ".join(["yield"] * rng.randrange(0, 3) + ["rlock mu0", "rd x0", "yield", "yield", "rd x0", "runlock mu0"] * rng.choice([1, 2])))
    if rng.random() < 0.7:
        lines.append("fiber " + " ; ".join(["trylock mu0", "unlock_if mu0", "yield"] * 4))
    return lines


def fam_starve(rng):
    """A victim locker (fiber 0) among barging threads that lock/unlock repeatedly (C14): victim writer among
    writers, writer among readers, reader among writers.  Run under the adversarial strategy 4 (the victim is
    scheduled only while somebody holds the mutex, so each of its retries loses the race) as well as randomly."""
    kind = rng.choice(["ww", "wr", "wr", "rw", "wt", "wt", "wq", "rt"])     # t: try-lock bargers (never block), q: rtrylock bargers
    lines = ["sem %s" % rng.choice(["counting", "binary"]), "objs mu=1 var=1", "var x0 0 mu0"]
    lines.append("fiber yield ; %s mu0 ; %s mu0" % (("lock", "unlock") if kind[0] == "w" else ("rlock", "runlock")))
    # a SINGLE reader hog (runlock; rlock back to back) leaves the victim writer the sole waiter: the unlock that wakes it
    # clears MU_WRITER_WAITING, and from then on MU_LONG_WAIT is the only thing that keeps a fresh reader out
    for _ in range(rng.choice([1, 1, 3, 4]) if kind == "wr" else rng.choice([3, 4, 5])):
        acq, rel = {"w": ("lock", "unlock"), "r": ("rlock", "runlock"), "t": ("trylock", "unlock_if"), "q": ("rtrylock", "runlock_if")}[kind[1]]
        n = rng.choice([60, 75]) if kind == "wr" else rng.choice([30, 45, 60])
        lines.append("fiber " + " ; ".join(["%s mu0 ; yield ; %s mu0" % (acq, rel)] * n))
    lines.append("#strategy4")
    return lines


def fam_starve_mix(rng):
    """C01 / C02 / C14 in the LONG-WAIT regime: a victim writer (fiber 0) that the adversarial scheduler lets lose
    every race, so that after 30 wake-ups it publishes MU_LONG_WAIT — while OTHER kinds of threads are around:
    blocking writers and readers that have themselves been woken (they are exempt from the bit), and timed
    nsync_mu_wait waiters whose deadline expires while the bit is set and the mutex is held (they re-acquire through
    mu_try_acquire_after_timeout_or_cancel)."""
    lines = ["sem %s" % rng.choice(["counting", "binary"]), "objs mu=1 var=1", "var x0 0 mu0", "cond c0 eq x0 7"]
    lines.append("fiber yield ; lock mu0 ; unlock mu0")
    for _ in range(rng.choice([2, 3])):
        acq, rel = rng.choice([("lock", "unlock"), ("lock", "unlock"), ("rlock", "runlock")])
        n = rng.choice([40, 55])
        lines.append("fiber " + " ; ".join(["%s mu0 ; yield ; %s mu0" % (acq, rel)] * n))
    for _ in range(rng.choice([1, 2])):
        rd = rng.random() < 0.4
        lines.append("fiber " + " ; ".join(["yield"] * rng.randrange(0, 3) + ["rlock mu0" if rd else "lock mu0", "muwait mu0 c0 %s" % rng.choice(["p300", "p1000", "p3000", "p8000"]), "runlock mu0" if rd else "unlock mu0"]))
    lines.append("#strategy4")
    return lines


def fam_longwait_timeout(rng):
    """C01 / C05 in the long-wait regime, built deterministically: a timed nsync_mu_wait waiter T (condition never
    true) sleeps; a hog H unlocks and immediately re-locks 30 times, each time after the victim V (fiber 0, a plain
    nsync_mu_lock caller that the adversarial scheduler lets lose every race) has gone back to sleep — so V escalates
    and publishes MU_LONG_WAIT while H holds the mutex; then the clock is advanced past T's deadline and T runs its
    timeout re-acquisition (mu_try_acquire_after_timeout_or_cancel) with the bit set and the mutex held."""
    rdT = rng.random() < 0.3
    rounds = 30            # V's 30th lost race: its next enqueue publishes MU_LONG_WAIT while H (who re-locked just before) holds the mutex
    lines = ["sem %s" % rng.choice(["counting", "binary"]), "objs mu=1 var=1", "var x0 0 mu0", "cond c0 eq x0 7"]
    lines.append("fiber after_blocked 2 ; yield ; lock mu0 ; unlock mu0")                                  # 0: V
    hog = ["after_blocked 2", "lock mu0", "after_blocked 0"] + ["unlock mu0", "lock mu0", "after_blocked 0"] * rounds
    hog += ["advance %d" % rng.choice([4000, 9000])] + ["yield"] * rng.choice([40, 80, 120]) + ["unlock mu0"]
    lines.append("fiber " + " ; ".join(hog))                                                                 # 1: H
    lines.append("fiber %s mu0 ; muwait mu0 c0 p3000 ; %s mu0" % (("rlock", "runlock") if rdT else ("lock", "unlock")))   # 2: T
    if rng.random() < 0.4:
        lines.append("fiber after_blocked 2 ; yield ; yield ; rlock mu0 ; runlock mu0")
    lines.append("#strategy4all")
    lines.append("#tick0")
    return lines


def fam_nw_release(rng):
    """C01 / C02 / C06: nsync_mu_unlock_without_wakeup (used by no test of the suite) with waiters of BOTH kinds
    queued: nsync_mu_wait callers whose condition stays false across the release (the API's precondition) and plain
    nsync_mu_lock / nsync_mu_rlock callers, who must be woken all the same.  Some scenarios never make the
    condition true (the waiters stay: `expect stuck-ok`; a plain locker left asleep on a free mutex is flagged by
    the quiescence oracle `lock-missed`), others do so at the end with an ordinary unlock."""
    nw = rng.choice([1, 1, 2])
    nl = rng.choice([1, 1, 2])
    lines = ["sem %s" % rng.choice(["counting", "binary"]), "objs mu=1 cv=0 var=2", "var x0 0 mu0", "var x1 0 mu0", "cond c0 eq x0 1", "cond c1 eq x0 1 eq"]
    finish = rng.random() < 0.5
    for _ in range(nw):
        rd = rng.random() < 0.3
        dl = "inf" if (finish or rng.random() < 0.6) else rng.choice(["p200000", "p5000"])
        lines.append("fiber " + " ; ".join(["yield"] * rng.randrange(0, 3) + ["rlock mu0" if rd else "lock mu0", "muwait mu0 %s %s" % (rng.choice(["c0", "c1"]), dl), "runlock mu0" if rd else "unlock mu0"]))
    for _ in range(nl):
        rd = rng.random() < 0.4
        lines.append("fiber " + " ; ".join(["yield"] * rng.randrange(0, 4) + (["rlock mu0", "rd x1", "runlock mu0"] if rd else ["lock mu0", "inc x1", "unlock mu0"])))
    blocked = " ; ".join("after_blocked %d" % f for f in range(nw + nl)) if rng.random() < 0.6 else "yield ; yield"
    rel = ["lock mu0", blocked, "inc x1", "unlock_nw mu0"]
    for _ in range(rng.choice([0, 0, 1, 2])):
        rel += ["yield", "lock mu0", "inc x1", "unlock_nw mu0"]
    if finish:
        rel += ["yield", "lock mu0", "wr x0 1", "unlock mu0"]
    lines.append("fiber " + " ; ".join(rel))
    if not finish:
        lines.append("expect stuck-ok")
    return lines


def fam_late_looker(rng):
    """C02 / C14: the designated-waker protocol under MU_LONG_WAIT.  Fiber 0 (victim A) loses every race against a
    hog until it publishes MU_LONG_WAIT; fiber 1 (B) was woken earlier (in a reader batch, or alone) and looks at the
    mutex only after the bit is up (scheduler strategy 6 parks it in its semaphore until then), re-queues in front
    of A and is the thread the next unlock wakes.  'Only the constraints of mutual exclusion should stop a
    designated waker': B must take the free mutex although MU_LONG_WAIT is set, or nobody is left to wake A."""
    nr = rng.choice([1, 1, 2])
    lines = ["sem %s" % rng.choice(["counting", "binary"]), "objs mu=1 cv=0 var=1", "var x0 0 mu0"]
    wait_q = " ; ".join("after_blocked %d" % f for f in range(1, 2 + nr))
    # A (writer, victim): arrives once B and the other readers are queued behind the hog
    lines.append("fiber " + wait_q + " ; " + " ; ".join(["yield"] * rng.randrange(0, 4) + ["lock mu0 ; unlock mu0"]))
    # B (reader, late looker) and the readers woken in the same batch
    for _ in range(1 + nr):
        lines.append("fiber " + " ; ".join(["yield"] * rng.randrange(1, 3) + ["rlock mu0 ; runlock mu0"]))
    n = rng.choice([36, 45])
    lines.append("fiber lock mu0 ; " + wait_q + " ; " + " ; ".join(["yield"] * rng.randrange(0, 4) + ["unlock mu0"]) + " ; " + " ; ".join(["lock mu0 ; yield ; unlock mu0"] * n))
    lines.append("#strategy6")
    return lines


def fam_starve_mw(rng):
    """C14: the overtaker holds the mutex except inside nsync_mu_wait_with_deadline calls that end at once (deadline
    already past, condition false): each call releases the mutex — waking the victim — and takes it back through
    mu_try_acquire_after_timeout_or_cancel.  That thread has never been woken, so it must honour MU_LONG_WAIT
    like any fresh locker once the victim has escalated."""
    kind = rng.choice(["w", "w", "r"])
    lines = ["sem %s" % rng.choice(["counting", "binary"]), "objs mu=1 cv=0 var=1", "var x0 0 mu0", "cond c0 eq x0 1"]
    lines.append("fiber yield ; %s mu0 ; %s mu0" % (("lock", "unlock") if kind == "w" else ("rlock", "runlock")))
    for _ in range(rng.choice([1, 1, 2])):
        n = rng.choice([60, 80])
        lines.append("fiber " + " ; ".join(["lock mu0"] + ["muwait mu0 c0 %s ; yield" % rng.choice(["m5", "z", "m5"]) for _ in range(n)] + ["unlock mu0"]))
    lines.append("#strategy4")
    return lines


def fam_starve_cv(rng):
    """C14: the overtakers come back from condition-variable waits (expired or short deadlines, so they were never
    handed to the mutex queue) instead of from plain lock calls: such a thread has not itself waited on the mutex
    and must respect MU_LONG_WAIT like any fresh locker."""
    kind = rng.choice(["w", "w", "r"])
    lines = ["sem %s" % rng.choice(["counting", "binary"]), "objs mu=1 cv=1 var=1", "var x0 0 mu0"]
    lines.append("fiber yield ; %s mu0 ; %s mu0" % (("lock", "unlock") if kind == "w" else ("rlock", "runlock")))
    # ONE thread holds the mutex except inside its cv waits (so every one of its re-acquisitions is a return from a
    # cv wait): it must make more than LONG_WAIT_THRESHOLD + threads + 6 of them for the oracle to be able to fire
    for _ in range(rng.choice([1, 1, 2])):
        n = rng.choice([60, 80])
        lines.append("fiber " + " ; ".join(["lock mu0"] + ["cvwait cv0 mu0 %s ; yield" % rng.choice(["m5", "z", "m5", "p1"]) for _ in range(n)] + ["unlock mu0"]))
    if rng.random() < 0.3:
        lines.append("fiber " + " ; ".join(["lock mu0 ; yield ; unlock mu0"] * 10))
    lines.append("#strategy4")
    return lines


def fam_refcount(rng):
    """C13 (mutex half): the reference-count pattern.  Every fiber owns one reference to an object that
    contains the mutex; it may use the mutex a few times, then does lock; last = (--refs == 0); unlock;
    if last: the memory holding the mutex is reclaimed at once (any later access is a violation)."""
    nf = rng.choice([2, 3, 3])
    lines = ["sem %s" % rng.choice(["counting", "binary"]), "objs mu=1 var=1", "var x0 %d mu0" % nf]
    for _ in range(nf):
        ops = []
        for _ in range(rng.choice([0, 1, 2])):
            ops += rng.choice([["lock mu0", "rd x0", "unlock mu0"], ["rlock mu0", "rd x0", "runlock mu0"], ["lock mu0", "yield", "unlock mu0"]])
        ops += ["yield"] * rng.randrange(0, 2) + ["unref mu0 x0"]
        lines.append("fiber " + " ; ".join(ops))
    return lines


def fam_alloc_fail_pool(rng):
    """C19 with a NON-EMPTY waiter pool: threads block on a mutex (each gets a waiter struct) and END (their key
    destructor hands the struct to the free pool: exec key threadexit=1), then a constructor's allocation fails
    (failctor=k counts only the constructors' allocations, whatever the pool and nsync_wait_n allocate in between),
    and afterwards other threads block again and take structs from the pool: the failed constructor must have left
    the library's own global state alone ('existing objects remain usable')."""
    lines = ["sem counting", "objs mu=2 cv=0 var=1 once=0 sem=0", "var x0 0 mu0"]
    nb = rng.choice([2, 3])
    # phase 1: contention on mu0 among short-lived threads
    lines.append("fiber lock mu0 ; " + " ; ".join("after_blocked %d" % f for f in range(1, 1 + nb)) + " ; inc x0 ; unlock mu0")
    for _ in range(nb):
        lines.append("fiber lock mu0 ; inc x0 ; unlock mu0")
    # phase 2: constructors (one of their allocations fails), the survivors are used
    ops = ["yield"] * rng.randrange(0, 3) + ["after_done %d" % f for f in range(0, 1 + nb)]
    n = rng.choice([2, 3])
    for i in range(n):
        ops.append("note_new n%d %s %s" % (i, "-" if i == 0 or rng.random() < 0.4 else "n%d" % rng.randrange(i), rng.choice(["inf", "p5000"])))
    ops.append("ctr_new k0 %d" % rng.choice([1, 2]))
    ops += ["is_notified n0", "ctr_value k0"]
    # phase 3: this thread and a late one contend on mu1: they need waiter structs again
    ops += ["lock mu1", "after_blocked %d" % (2 + nb), "unlock mu1"]
    lines.append("fiber " + " ; ".join(ops))
    lines.append("fiber " + " ; ".join(["after_done %d" % f for f in range(0, 1 + nb)] + ["yield"] * rng.randrange(1, 4) + ["lock mu1", "unlock mu1"]))
    lines.append("#failctor %d" % rng.randrange(1, n + 2))
    lines.append("#threadexit")
    return lines


def fam_timed_readers(rng):
    """C05 / C15: 'once the deadline has passed the call returns as soon as the mutex can be re-acquired' against
    READERS that hand the read lock over without a gap: a timed-out nsync_mu_wait caller (reader or writer mode,
    condition false for ever) must raise MU_WRITER_WAITING so that new readers queue behind it; oracle
    timed-starved counts the nsync_mu_rlock calls that begin after the deadline and are admitted before the caller
    has the mutex back."""
    nr = rng.choice([3, 4])
    lines = ["sem %s" % rng.choice(["counting", "binary"]), "objs mu=1 cv=0 var=1", "var x0 0 mu0", "cond c0 eq x0 1"]
    rd = rng.random() < 0.5
    lines.append("fiber " + " ; ".join(["rlock mu0" if rd else "lock mu0", "muwait mu0 c0 %s" % rng.choice(["p200", "p2000"]), "runlock mu0" if rd else "unlock mu0"]))
    # one reader keeps the mutex read-held for a long time (so the timed-out caller cannot get it back yet) …
    lines.append("fiber after_blocked 0 ; rlock mu0 ; advance 5000 ; " + " ; ".join(["yield"] * rng.choice([500, 700])) + " ; runlock mu0")   # the deadline passes while this reader holds
    # … while new readers keep arriving: once the caller has timed out they must queue behind its MU_WRITER_WAITING
    for i in range(nr):
        n = rng.choice([30, 40])
        lines.append("fiber " + " ; ".join(["after_blocked 0"] + ["yield"] * (2 * i) + ["rlock mu0 ; yield ; runlock mu0"] * n))
    lines.append("#tick0")
    return lines


def fam_refcount_mw(rng):
    """C13 (mutex half) with conditional critical sections: the reference-count pattern where a holder's last use of
    the mutex is an nsync_mu_wait that TIMES OUT (the call returns holding the lock and leaves MU_WAITING / MU_CONDITION
    behind with an empty queue: its unlock takes the slow path with a late release), while the other owners only ever
    poll nsync_mu_trylock: one of them can be the last user inside the releaser's slow path and reclaims the memory
    as soon as its own unlock returns."""
    nf = rng.choice([2, 2, 3])
    lines = ["sem %s" % rng.choice(["counting", "binary"]), "objs mu=1 var=2", "var x0 %d mu0" % nf, "var x1 0 mu0", "cond c0 eq x1 1", "cond c1 ge x1 5"]
    nmw = rng.choice([1, 1, 2]) if nf > 2 else 1
    for i in range(nf):
        if i < nmw:
            ops = ["yield"] * rng.randrange(0, 2) + ["lock mu0", "muwait mu0 %s %s" % (rng.choice(["c0", "c1"]), rng.choice(["p200", "p1000", "m5", "z"])), "unref_held mu0 x0"]
        else:
            ops = ["yield"] * rng.randrange(0, 3) + ["trylock_spin mu0", "unref_held mu0 x0"]
        lines.append("fiber " + " ; ".join(ops))
    return lines


def fam_alloc_fail(rng):
    """C19: small note trees and counters built by the fibers themselves; the k-th allocation performed by a
    CONSTRUCTOR fails (exec key failmalloc=k counts every malloc of the library, so the scenario performs no
    other allocation before the constructors: no contention, no waits).  Afterwards the would-be parent and the
    other objects are used normally."""
    lines = ["sem counting", "objs mu=0 cv=0 var=0 once=0 sem=0"]
    n = rng.choice([2, 3, 4])
    ops = []
    for i in range(n):
        ops.append("note_new n%d %s %s" % (i, "-" if i == 0 or rng.random() < 0.3 else "n%d" % rng.randrange(i), rng.choice(["inf", "p5000", "inf"])))
    ops.append("ctr_new k0 %d" % rng.choice([0, 1, 2]))
    ops.append("ctr_new k1 1")
    # use what exists afterwards (ops on a NULL object are skipped by the interpreter)
    use = ["is_notified n0", "notify n0", "is_notified n1", "note_expiry n1", "ctr_value k0", "ctr_add k1 -1", "ctr_value k1", "notify n1", "is_notified n2"]
    rng.shuffle(use)
    lines.append("fiber " + " ; ".join(ops + use[:rng.choice([3, 5, 7])]))
    if rng.random() < 0.3:
        lines.append("#failmallocfrom %d" % rng.randrange(1, n + 3))     # a persistent shortage: every later allocation fails too
    else:
        lines.append("#failmalloc %d" % rng.randrange(1, n + 3))
    return lines


def fam_mixed(rng):
    return rng.choice([fam_core, fam_cv, fam_cv_raw, fam_muwait, fam_cv_rsignal])(rng)   # (waitn_cv has its own family: it exhibits known finding F3)


def fam_once(rng):
    """2..4 callers mixing the four entry points on 1..3 once objects; o0 and o64 share an internal
    once_sync slot (the slot is address/4 mod 64).  Variants 0/2 (no argument) only on o0."""
    nf = rng.choice([2, 3, 3, 4])
    objs = rng.choice([["o0"], ["o0", "o64"], ["o0", "o1", "o64"], ["o0", "o64", "o128"]])
    lines = ["sem %s" % rng.choice(["counting", "binary"]), "objs mu=1 once=130"]
    if rng.random() < 0.4:
        # a long-running initialiser: the clock passes several of the blocked callers' polling deadlines while it runs
        lines.append("oncecb %d" % rng.choice([30, 60, 120]))
    for f in range(nf):
        ops = []
        for _ in range(rng.choice([1, 2, 3])):
            o = rng.choice(objs)
            v = rng.choice([0, 1, 2, 3]) if o == "o0" else rng.choice([1, 3])
            ops.append("once %s %d" % (o, v))
            if rng.random() < 0.2: ops.append("yield")
        lines.append("fiber " + " ; ".join(ops))
    return lines


def fam_once_nested(rng):
    """C07: the once function of one object itself calls nsync_run_once* on ANOTHER once object — possibly one that
    shares the internal lock slot (o0 / o64 / o128 collide) — while other threads call both.  No call may block for
    ever and each function runs once.  (The Once acceptor has no nested frames: replayed through MuX only.)"""
    a, b = rng.choice([(0, 64), (64, 128), (0, 1), (1, 64), (64, 0 + 128)])
    lines = ["sem %s" % rng.choice(["counting", "binary"]), "objs mu=1 once=130", "oncecb %d" % rng.choice([4, 8, 20]),
             "oncenest o%d o%d %d" % (a, b, rng.choice([1, 1, 3]))]
    for f in range(rng.choice([2, 3, 4])):
        ops = []
        for _ in range(rng.choice([1, 2])):
            o = rng.choice([a, a, b])
            v = rng.choice([0, 1, 2, 3]) if o == 0 else rng.choice([1, 3])
            ops.append("once o%d %d" % (o, v))
            if rng.random() < 0.3: ops.append("yield")
        lines.append("fiber " + " ; ".join(ops))
    return lines


def fam_muc_cv(rng):
    """C04 / C06 / C02: condition variable waiters and nsync_mu_wait waiters on the SAME mutex.  A conditional waiter
    whose condition stays false is scanned by a writer's unlock (which may publish MU_ALL_FALSE); then a cv waiter
    is signalled while the mutex is READ-held, so wake_waiters hands it to the mutex queue; the last reader's
    release must wake it.  The conditional waiter never returns (expect stuck-ok); what must not happen is a cv
    waiter left asleep on a free mutex after it was signalled (oracle cv-woken-asleep at quiescence)."""
    lines = ["sem %s" % rng.choice(["counting", "binary"]), "objs mu=1 cv=1 var=2", "var x0 0 mu0", "var x1 0 mu0",
             "cond c0 eq x0 7", "cond c1 ge x0 7"]
    nf = 0
    for _ in range(rng.choice([1, 1, 2])):          # conditional waiters, never satisfied
        rd = rng.random() < 0.3
        lines.append("fiber " + " ; ".join((["after_blocked %d" % (nf - 1)] if nf else []) + ["rlock mu0" if rd else "lock mu0", "muwait mu0 %s inf" % rng.choice(["c0", "c1"]), "runlock mu0" if rd else "unlock mu0"])); nf += 1
    ncv = rng.choice([1, 1, 2])
    for _ in range(ncv):                            # cv waiters for x1 == 1
        rd = rng.random() < 0.3
        lines.append("fiber " + " ; ".join(["after_blocked %d" % (nf - 1), "rlock mu0" if rd else "lock mu0", "await cv0 mu0 x1 1 inf", "runlock mu0" if rd else "unlock mu0"])); nf += 1
    # a writer makes the cv predicate true (its unlock scans the false conditions), then a READER signals
    lines.append("fiber after_blocked %d ; lock mu0 ; wr x1 1 ; unlock mu0" % (nf - 1)); w = nf; nf += 1
    sig = "broadcast cv0" if ncv > 1 else rng.choice(["signal cv0", "broadcast cv0"])
    if rng.random() < 0.5:
        lines.append("fiber after_blocked %d ; yield ; rlock mu0 ; %s ; runlock mu0" % (w, sig))
    else:
        lines.append("fiber after_blocked %d ; yield ; rlock mu0 ; yield ; yield ; yield ; yield ; runlock mu0" % w)
        lines.append("fiber after_blocked %d ; yield ; yield ; %s" % (w, sig))
    lines.append("expect stuck-ok")
    return lines


def fam_futex(rng):
    """One waiter, 1..3 posters on one semaphore of the real nsync_semaphore_futex.c over the modelled
    kernel futex; the number of posts covers the untimed waits, so every execution terminates."""
    nposters = rng.choice([1, 2, 2, 3])
    wops, need = [], 0
    for _ in range(rng.choice([1, 2, 3])):
        if rng.random() < 0.5:
            wops.append("sem_p s0"); need += 1
        else:
            wops.append("sem_pd s0 %s" % rng.choice(["inf", "p1000", "p40000", "m5", "z", "neg"]))
            need += 1   # a timed wait may consume a post
    lines = ["sem counting", "objs mu=1 sem=1", "fiber " + " ; ".join(wops)]
    posts = need + rng.choice([0, 0, 1])
    per = [[] for _ in range(nposters)]
    for i in range(posts):
        per[rng.randrange(nposters)].append("sem_v s0")
    for ops in per:
        pre = ["yield"] * rng.randrange(0, 3)
        lines.append("fiber " + " ; ".join(pre + ops if ops else pre + ["yield"]))
    return lines


def fam_ctr(rng):
    """A counter decremented to zero by several threads while others wait for it (with and without
    deadlines) or poll its value; every adder writes its own variable before adding (the waiter's
    continuation must see it: C03) — no increments after a wait (API contract)."""
    nadd = rng.choice([1, 2, 2, 3])
    per = [rng.choice([1, 1, 2]) for _ in range(nadd)]
    total = sum(per)
    lines = ["sem %s" % rng.choice(["counting", "binary"]), "objs mu=1 var=%d" % (nadd + 1), "pre ctr_new k0 %d" % total]
    for i in range(nadd):
        ops = ["yield"] * rng.randrange(0, 3) + ["wr x%d 1" % i] + ["ctr_add k0 -1"] * per[i]
        lines.append("fiber " + " ; ".join(ops))
    nwait = rng.choice([1, 1, 2, 3, 4])
    for i in range(nwait):
        # with several waiters the later ones tend to be timed (a deadline expiring while the zeroing add wakes the others)
        dl = rng.choice(["inf", "inf", "p1000", "p90000", "m5", "z"]) if i < 2 else rng.choice(["p1000", "p3000", "p90000", "inf"])
        if rng.random() < 0.25:
            dl = far_dl(rng)
        ops = ["yield"] * (i if nwait > 2 else 0) + ["ctr_wait k0 %s" % dl, "ctr_value k0"]
        lines.append("fiber " + " ; ".join(ops))
    if rng.random() < 0.4:
        lines.append("fiber ctr_value k0 ; yield ; ctr_add k0 0 ; ctr_value k0")
    return lines


def far_dl(rng):
    """A deadline far in the future: whole days, and instants around 2^31 / 2^32 milliseconds and 2^31 seconds from now
    (any future instant is a legal abs_deadline; conversions to narrower units must not wrap)."""
    ns = rng.choice([86400 * d * 10**9 for d in (1, 20, 30, 45, 60, 365, 20000)] +
                    [(2**31 + rng.randrange(-5, 5)) * 10**6, (2**32 + rng.randrange(-5, 5)) * 10**6, 3 * 2**31 * 10**6, (2**31 + 7) * 10**9])
    return "p%d" % ns


def fam_ctr_big(rng):
    """C10 with counter values around 2^31 and 2^32 (any uint32 is a legal count): the counter never reaches zero,
    so every timed wait must time out (non-zero result) and every value / add result must be exact; also through
    nsync_wait_n."""
    v0 = rng.choice([0x7fffffff, 0x80000000, 0x80000001, 0xfffffff0, 0x80000000 + rng.randrange(2, 1000), 0xffffffff])
    lines = ["sem %s" % rng.choice(["counting", "binary"]), "objs mu=1 var=1", "pre ctr_new k0 %d ; note_new n0 - inf" % v0]
    for i in range(rng.choice([1, 2, 2])):
        ops = ["yield"] * rng.randrange(0, 3) + [rng.choice(["ctr_add k0 -1", "ctr_add k0 -1", "ctr_add k0 0"]) for _ in range(rng.choice([1, 2, 3]))]   # never an increment: 2^32-1 + 1 would be a wrap to zero
        lines.append("fiber " + " ; ".join(ops))
    for i in range(rng.choice([1, 2, 3])):
        dl = rng.choice(["p1000", "p3000", "p90000", "m5", "z"]) if rng.random() < 0.8 else far_dl(rng)
        w = "ctr_wait k0 %s" % dl if rng.random() < 0.7 else "waitn - %s n0 k0" % dl
        lines.append("fiber " + " ; ".join(["yield"] * rng.randrange(0, 2) + [w, "ctr_value k0"]))
    return lines


import gen_note as _gn
try:
    import gen_waitn as _gw
except Exception:
    _gw = None
try:
    import gen_muc as _gm
except Exception:
    _gm = None

FAMILIES = {"alloc_fail": fam_alloc_fail, "note": _gn.fam_note, "note_f4": _gn.fam_note_f4, "note_f4b": _gn.fam_note_f4b, "note_wc": _gn.fam_note_wc, "note_f7": _gn.fam_note_f7, "refcount": fam_refcount, "refcount_mw": fam_refcount_mw, "timed_readers": fam_timed_readers, "alloc_fail_pool": fam_alloc_fail_pool, "starve": fam_starve, "cv_rsignal": fam_cv_rsignal, "ctr": fam_ctr, "once": fam_once, "futex": fam_futex,"core": fam_core, "cv": fam_cv, "cv_raw": fam_cv_raw, "muwait": fam_muwait, "debug": fam_debug,
            "waitn_cv": fam_waitn_cv, "waitn_rep": fam_waitn_rep, "waitn_sig": fam_waitn_sig, "waitn_atomic": fam_waitn_atomic, "starve_cv": fam_starve_cv, "starve_mw": fam_starve_mw, "late_looker": fam_late_looker, "debug_cond": fam_debug_cond, "nw_release": fam_nw_release, "longwait_timeout": fam_longwait_timeout, "starve_mix": fam_starve_mix, "muc_cv": fam_muc_cv, "once_nested": fam_once_nested, "ctr_big": fam_ctr_big, "cancel_children": fam_cancel_children, "cv_rwr": fam_cv_rwr, "muc_eqmix": fam_muc_eqmix, "timed_contended": fam_timed_contended, "waitn_mon": fam_waitn_mon, "cancel_only": fam_cancel_only, "mixed": fam_mixed}


if _gw is not None:
    FAMILIES["waitn"] = _gw.fam_waitn
    if hasattr(_gw, "fam_waitn_f3"): FAMILIES["waitn_f3"] = _gw.fam_waitn_f3
if _gm is not None:
    FAMILIES["muc"] = _gm.fam_muc


def make_batch(path, seed, plan):
    """plan: list of (family, n_scenarios, n_execs).  Returns list of (family, scenario text)."""
    rng = random.Random(seed)
    blocks = []
    with open(path, "w") as f:
        for fam, ns, ne in plan:
            for _ in range(ns):
                lines = FAMILIES[fam.split("@")[0]](rng)
                ex = execs(rng, ne)
                if fam.endswith("@ps"):
                    # plain WRITES of the library to shared records are scheduling points (per-mille probability): another
                    # thread may run between two adjacent statements of a section the library believes protected
                    ex = [e + " plainsched=%d" % (60 if i % 2 else 200) for i, e in enumerate(ex)]
                if "#tick0" in lines:          # the scenario moves the clock itself (op `advance`): no random ticks
                    lines = [l for l in lines if l != "#tick0"]
                    ex = [re.sub(r"tick=\d+", "tick=0", e) for e in ex]
                if "#strategy4all" in lines:   # every schedule of this scenario is adversarial (the scenario is built for it)
                    lines = [l for l in lines if l != "#strategy4all"]
                    ex = [e.replace("strategy=%s" % e.split("strategy=")[1].split()[0], "strategy=4") for e in ex]
                if "#strategy6" in lines:      # every schedule adversarial with a late looker (fiber 1)
                    lines = [l for l in lines if l != "#strategy6"]
                    ex = [e.replace("strategy=%s" % e.split("strategy=")[1].split()[0], "strategy=6") for e in ex]
                if "#strategy4" in lines:      # half of the schedules of this scenario are adversarial
                    lines = [l for l in lines if l != "#strategy4"]
                    ex = [e.replace("strategy=%s" % e.split("strategy=")[1].split()[0], "strategy=%d" % (4 if i % 4 == 0 else 5)) if i % 2 == 0 else e for i, e in enumerate(ex)]   # 5 = 4 + early wake-ups
                fmf = [l for l in lines if l.startswith("#failmallocfrom ")]
                if fmf:
                    lines = [l for l in lines if not l.startswith("#failmallocfrom ")]
                    ex = [e + " failmallocfrom=%s" % fmf[0].split()[1] for e in ex]
                fc = [l for l in lines if l.startswith("#failctor ")]
                if fc:
                    lines = [l for l in lines if not l.startswith("#failctor ")]
                    ex = [e + " failctor=%s" % fc[0].split()[1] for e in ex]
                if "#threadexit" in lines:
                    lines = [l for l in lines if l != "#threadexit"]
                    ex = [e + " threadexit=1" for e in ex]
                fm = [l for l in lines if l.startswith("#failmalloc ")]
                if fm:
                    lines = [l for l in lines if not l.startswith("#failmalloc ")]
                    ex = [e + " failmalloc=%s" % fm[0].split()[1] for e in ex]
                blocks.append((fam, lines))
                f.write("\n".join(lines) + "\n" + "\n".join(ex) + "\n---\n")
    return blocks


def append_corpus(path, blocks, corpus_files):
    """Directed corpus: scenario files with their own exec lines; run first (they are appended as blocks)."""
    with open(path, "a") as f:
        for cf in corpus_files:
            lines = [l.rstrip("\n") for l in open(cf) if l.strip() and not l.startswith("#")]
            blocks.append(("corpus:" + cf.split("/")[-1], [l for l in lines if not l.startswith("exec ")]))
            f.write("\n".join(lines) + "\n---\n")
    return blocks
