#!/bin/sh
# usage: seed_regress.sh [name-pattern]   run every stored seeded change against the check of ITS property and record the result
# (replay | no-failing-input-found | MISSED) in seeded/REGRESSION.txt.  /repo is patched and restored for each seed: do not
# run other checks at the same time.
cd "$(dirname "$0")/.."
out=seeded/REGRESSION.txt; : > $out.tmp
for d in seeded/${1:-*}/; do
  n=$(basename $d); p=$(python3 -c "import json; print(json.load(open('$d/meta.json'))['property'])")
  if ! git -C /repo apply --check "$PWD/$d/patch.diff" 2>/dev/null; then echo "$n $p PATCH-DOES-NOT-APPLY" >> $out.tmp; continue; fi
  git -C /repo apply "$PWD/$d/patch.diff"
  o=$(./check $p 2>&1); rc=$?
  git -C /repo checkout -- .
  if [ $rc = 0 ]; then r=MISSED; elif echo "$o" | grep -q "no-failing-input-found"; then r=no-failing-input-found; else r=replay; fi
  echo "$n $p $r" >> $out.tmp
done
mv $out.tmp $out; sort -k3 $out | awk '{c[$3]++} END{for(k in c) print k, c[k]}'
