#!/bin/sh
# usage: confirm_seed.sh <Cxx> [name] — confirm a seeded change produced in /tmp/mut_<Cxx> (+ /tmp/mut_<Cxx>_out):
# suite passes with the patch, demo fails with it and passes on the pristine /repo; then store it under /verif/seeded/.
id="$1"; name="${2:-$1}"; wt=/tmp/mut_$id; out=/tmp/mut_${id}_out
cd "$wt" || exit 2
( cmake -G Ninja -B _build -DCMAKE_BUILD_TYPE=Release . >/dev/null && cmake --build _build 2>&1 | tail -1 && ctest --test-dir _build -j8 --timeout 900 2>&1 | tail -3 ) > "$out/confirm_suite.txt" 2>&1
suite=$(grep -c "100% tests passed" "$out/confirm_suite.txt")
rm -rf _build
sh "$out/run_demo.sh" "$wt" > "$out/confirm_demo_patched.txt" 2>&1; dp=$?
sh "$out/run_demo.sh" /repo > "$out/confirm_demo_pristine.txt" 2>&1; dc=$?
echo "suite_pass=$suite demo_patched_rc=$dp demo_pristine_rc=$dc"
if [ "$suite" = 1 ] && [ "$dp" != 0 ] && [ "$dc" = 0 ]; then
  d=/verif/seeded/$name; mkdir -p "$d"
  cp -r "$out"/. "$d/" 2>/dev/null; rm -f "$d"/confirm_*.txt
  echo "CONFIRMED -> $d"
else
  echo "NOT CONFIRMED"
fi
