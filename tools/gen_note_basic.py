#!/usr/bin/env python3
"""Generates NsyncVerif/Proofs/NoteBasic.lean (projection lemmas for every primitive update)."""
import sys
HEAD = r'''/-
  Layer `Note`: basic facts about the acceptor (induction over reachable states, and the projections
  of every primitive state update, field by field).  The projection lemmas are generated
  mechanically (one per primitive and field); they are all proved by unfolding.
-/
import NsyncVerif.Model.Note

set_option linter.unusedSimpArgs false

namespace Note

theorem run_append (s : State) (a b : List Event) :
    run s (a ++ b) = match run s a with | .ok s' => run s' b | .error m => .error m := by
  induction a generalizing s with
  | nil => simp [run]
  | cons e es ih =>
    simp only [List.cons_append, run]
    cases step s e with
    | ok s' => simp [ih]
    | error m => simp

theorem Reachable.start : Reachable Note.init := ⟨[], rfl⟩

theorem Reachable.next {s s' : State} {e : Event} (h : Reachable s) (hs : step s e = .ok s') :
    Reachable s' := by
  obtain ⟨evs, h⟩ := h
  refine ⟨evs ++ [e], ?_⟩
  rw [run_append, h]
  simp [run, hs]

theorem Reachable.many {s s' : State} {evs : List Event} (h : Reachable s)
    (hr : run s evs = .ok s') : Reachable s' := by
  induction evs generalizing s with
  | nil => simp [Note.run] at hr; exact hr ▸ h
  | cons e es ih =>
    simp only [Note.run] at hr
    cases hs : Note.step s e with
    | ok s1 => rw [hs] at hr; exact ih (h.next hs) hr
    | error m => rw [hs] at hr; simp at hr

/-- Induction over reachable states. -/
theorem Reachable.induction {P : State → Prop} (h0 : P Note.init)
    (hstep : ∀ s e s', Reachable s → P s → step s e = .ok s' → P s') :
    ∀ s, Reachable s → P s := by
  intro s ⟨evs, h⟩
  suffices ∀ (evs : List Event) (s0 : State), Reachable s0 → P s0 → ∀ s, run s0 evs = .ok s → P s from
    this evs Note.init Reachable.start h0 s h
  intro evs
  induction evs with
  | nil => intro s0 _ hp s h; simp [run] at h; exact h ▸ hp
  | cons e es ih =>
    intro s0 hr hp s h
    simp only [run] at h
    cases hs : step s0 e with
    | ok s1 => rw [hs] at h; exact ih s1 (hr.next hs) (hstep s0 e s1 hr hp hs) s h
    | error m => rw [hs] at h; simp at h

/-- `need` succeeds iff the condition holds and the continuation succeeds. -/
@[simp] theorem need_ok {c : Prop} [Decidable c] {msg : String} {k : Except String State}
    {s' : State} : need c msg k = .ok s' ↔ c ∧ k = .ok s' := by
  unfold need; split <;> simp [*]

theorem upd_ne {β : Type} (f : Nat → β) {a x : Nat} (b : β) (h : x ≠ a) : upd f a b x = f x := by
  simp [upd, h]

'''
sfields=['notes','recs','now','pc','users','freeing','published','notifyCalled','ownDl','ancEver','pathMin','bornNotified','after','observed']
rfields=['parent','children','notified','expiry','disconnecting','waiters','lockHolder','allocated','freed']
out=[HEAD,'/-! ### State fields left alone by each primitive -/\n']
# (name, binders, args, {changed state field: value or None})
prims=[
 ('setPc','(t : Tid) (p : PC)','t p',{'pc':'upd s.pc t p'}),
 ('modNote','(k : NoteId) (f : NoteRec → NoteRec)','k f',{'notes':'upd s.notes k (f (s.notes k))'}),
 ('modRec','(r : Rid) (f : WRec → WRec)','r f',{'recs':'upd s.recs r (f (s.recs r))'}),
 ('addUser','(n : NoteId) (t : Tid)','n t',{'users':'upd s.users n (t :: s.users n)'}),
 ('delUser','(n : NoteId) (t : Tid)','n t',{'users':'upd s.users n ((s.users n).erase t)'}),
 ('markFreeing','(n : NoteId)','n',{'freeing':'upd s.freeing n true'}),
 ('markCalled','(n : NoteId)','n',{'notifyCalled':'upd s.notifyCalled n true'}),
 ('markBorn','(n : NoteId)','n',{'bornNotified':'upd s.bornNotified n true'}),
 ('publish','(n : NoteId)','n',{'published':'upd s.published n true'}),
 ('setAfter','(t : Tid) (b : Bool)','t b',{'after':'upd s.after t b'}),
 ('pushObs','(o : Obs)','o',{'observed':'o :: s.observed'}),
 ('setNow','(v : Nat)','v',{'now':'v'}),
 ('allocNote','(k : NoteId) (par : Option NoteId) (dl : Dl)','k par dl',{
    'notes':'upd s.notes k { NoteRec.blank with expiry := dl, allocated := true }',
    'ownDl':'upd s.ownDl k dl',
    'ancEver':'upd s.ancEver k (k :: s.ancOf par)',
    'pathMin':'upd s.pathMin k (s.minOf dl par)'}),
]
# note primitives: (name, binders, args, {record field: (cond, newval)}) ; j is the probed note
nprims=[
 ('acquire','(k : NoteId) (t : Tid)','k t',{'lockHolder':('j = k','some t')}),
 ('release','(k : NoteId)','k',{'lockHolder':('j = k','none')}),
 ('incDisc','(k : NoteId)','k',{'disconnecting':('j = k','(s.notes j).disconnecting + 1')}),
 ('decDisc','(k : NoteId)','k',{'disconnecting':('j = k','(s.notes j).disconnecting - 1')}),
 ('setWaiters','(k : NoteId) (ws : List Rid)','k ws',{'waiters':('j = k','ws')}),
 ('setExpiry','(k : NoteId) (d : Dl)','k d',{'expiry':('j = k','d')}),
 ('setNotified','(k : NoteId)','k',{'notified':('j = k','true')}),
 ('markFreed','(k : NoteId)','k',{'freed':('j = k','true')}),
 ('eraseChild','(n c : NoteId)','n c',{'children':('j = n','(s.notes j).children.erase c')}),
 ('clearParent','(c : NoteId)','c',{'parent':('j = c','none')}),
 ('link','(c p : NoteId)','c p',{'parent':('j = c','some p'),'children':('j = p','(s.notes j).children ++ [c]')}),
 ('unlink','(c p : NoteId)','c p',{'parent':('j = c','none'),'children':('j = p','(s.notes j).children.erase c')}),
]
for name,b,a,ch in prims:
    for f in sfields:
        if f in ch:
            out.append('@[simp] theorem %s_%s (s : State) %s :\n    (s.%s %s).%s = %s := rfl' % (name,f,b,name,a,f,ch[f]))
        else:
            out.append('@[simp] theorem %s_%s (s : State) %s : (s.%s %s).%s = s.%s := rfl' % (name,f,b,name,a,f,f))
out.append('\n/-! ### The note primitives, record field by record field -/\n')
UNF='State.acquire, State.release, State.incDisc, State.decDisc, State.setWaiters, State.setExpiry, State.setNotified, State.markFreed, State.eraseChild, State.clearParent, State.link, State.unlink, modNote_notes, upd_apply'
for name,b,a,ch in nprims:
    for f in sfields:
        if f=='notes': continue
        out.append('@[simp] theorem %s_%s (s : State) %s : (s.%s %s).%s = s.%s := rfl' % (name,f,b,name,a,f,f))
    for f in rfields:
        if f in ch:
            cond,val=ch[f]
            out.append('@[simp] theorem %s_f_%s (s : State) %s (j : NoteId) :\n    ((s.%s %s).notes j).%s = if %s then %s else (s.notes j).%s := by\n  simp only [%s]; (repeat\' split) <;> simp_all' % (name,f,b,name,a,f,cond,val,f,UNF))
        else:
            out.append('@[simp] theorem %s_f_%s (s : State) %s (j : NoteId) :\n    ((s.%s %s).notes j).%s = (s.notes j).%s := by\n  simp only [%s]; (repeat\' split) <;> simp_all' % (name,f,b,name,a,f,f,UNF))
# allocNote per record field
out.append('''@[simp] theorem allocNote_f (s : State) (k : NoteId) (par : Option NoteId) (dl : Dl) (j : NoteId) :
    (s.allocNote k par dl).notes j =
      if j = k then { NoteRec.blank with expiry := dl, allocated := true } else s.notes j := by
  simp [upd_apply]
''')
out.append('/-! ### The control transfers, field by field -/\n')
hs=[f for f in sfields if f not in ('notes','pc')]
b_ad='(s : State) (t : Tid) (n : NoteId) (nt : Dl) (k : DK)'
for f in sfields:
    if f in ('pc','bornNotified'): continue
    out.append('@[simp] theorem afterDeadline_%s %s : (afterDeadline s t n nt k).%s = s.%s := by\n  unfold afterDeadline; split <;> rfl' % (f,b_ad,f,f))
out.append('@[simp] theorem afterDeadline_pc %s :\n    (afterDeadline s t n nt k).pc = upd s.pc t (afterDeadlinePc n nt k) := by\n  unfold afterDeadline; split <;> rfl' % b_ad)
out.append('@[simp] theorem afterDeadline_bornNotified %s : (afterDeadline s t n nt k).bornNotified =\n    (if bornNow nt k then upd s.bornNotified n true else s.bornNotified) := by\n  unfold afterDeadline; split <;> rfl' % b_ad)
b_lv='(s : State) (t : Tid) (n : NoteId)'
for f in sfields:
    if f in ('pc','users'): continue
    out.append('@[simp] theorem leave_%s %s : (s.leave t n).%s = s.%s := rfl' % (f,b_lv,f,f))
out.append('@[simp] theorem leave_pc %s : (s.leave t n).pc = upd s.pc t .idle := rfl' % b_lv)
out.append('@[simp] theorem leave_users %s : (s.leave t n).users = upd s.users n ((s.users n).erase t) := rfl' % b_lv)
out.append('''
/-- Where control goes when `notify (n)` returns. -/
def afterNotifyPc (n : NoteId) : NK → PC
  | .ofApi => .retNotify n
  | .ofDeadline k => afterDeadlinePc n (some 0) k

/-- `notify` was called by the `nsync_note_is_notified (n)` of `nsync_note_new`. -/
def NK.bornNow : NK → Bool
  | .ofApi => false
  | .ofDeadline k => Note.bornNow (some 0) k
''')
b='(s : State) (t : Tid) (n : NoteId) (k : NK)'
for f in sfields:
    if f in ('bornNotified','pc'): continue
    out.append('@[simp] theorem afterNotify_%s %s : (afterNotify s t n k).%s = s.%s := by\n  cases k <;> simp [afterNotify]' % (f,b,f,f))
out.append('@[simp] theorem afterNotify_pc %s :\n    (afterNotify s t n k).pc = upd s.pc t (afterNotifyPc n k) := by\n  cases k <;> simp [afterNotify, afterNotifyPc]' % b)
out.append('@[simp] theorem afterNotify_bornNotified %s : (afterNotify s t n k).bornNotified =\n    (if k.bornNow then upd s.bornNotified n true else s.bornNotified) := by\n  cases k with\n  | ofApi => simp [afterNotify, NK.bornNow]\n  | ofDeadline k => simp only [afterNotify, afterDeadline_bornNotified]; rfl' % b)
b='(s : State) (t : Tid) (f : Frame) (rest : List Frame) (top : Top)'
for f in hs:
    out.append('@[simp] theorem childReturn_%s %s : (childReturn s t f rest top).%s = s.%s := by\n  unfold childReturn; split <;> rfl' % (f,b,f,f))
out.append('@[simp] theorem childReturn_pc %s :\n    (childReturn s t f rest top).pc = upd s.pc t (childReturnPc f rest top) := by\n  unfold childReturn; split <;> rfl' % b)
for f in rfields:
    if f=='disconnecting':
        out.append('@[simp] theorem childReturn_f_%s %s (j : NoteId) :\n    ((childReturn s t f rest top).notes j).%s =\n      if childReturnDec rest top = true ∧ j = top.n then (s.notes j).disconnecting - 1 else (s.notes j).%s := by\n  unfold childReturn; split <;> simp_all' % (f,b,f,f))
    else:
        out.append('@[simp] theorem childReturn_f_%s %s (j : NoteId) :\n    ((childReturn s t f rest top).notes j).%s = (s.notes j).%s := by\n  unfold childReturn; split <;> simp' % (f,b,f,f))
out.append('''/-- Where control goes after a waiter has been woken (or the flag stored). -/
def childWakeNextPc (s : State) (f : Frame) (rest : List Frame) (top : Top) : PC :=
  match (s.notes f.note).waiters with
  | r :: _ => .chd (.wake r) (f :: rest) top
  | [] => childLoopStartPc (s.notes f.note).children f rest top
''')
for f in hs:
    out.append('@[simp] theorem childWakeNext_%s %s : (childWakeNext s t f rest top).%s = s.%s := by\n  unfold childWakeNext; split <;> rfl' % (f,b,f,f))
out.append('@[simp] theorem childWakeNext_pc %s :\n    (childWakeNext s t f rest top).pc = upd s.pc t (childWakeNextPc s f rest top) := by\n  unfold childWakeNext childWakeNextPc; split <;> simp_all' % b)
for f in rfields:
    if f=='waiters':
        out.append('@[simp] theorem childWakeNext_f_%s %s (j : NoteId) :\n    ((childWakeNext s t f rest top).notes j).%s =\n      if j = f.note then (s.notes j).waiters.tail else (s.notes j).%s := by\n  unfold childWakeNext; split <;> simp_all <;> split <;> simp_all' % (f,b,f,f))
    else:
        out.append('@[simp] theorem childWakeNext_f_%s %s (j : NoteId) :\n    ((childWakeNext s t f rest top).notes j).%s = (s.notes j).%s := by\n  unfold childWakeNext; split <;> simp' % (f,b,f,f))
for H,b,args,pc in [('freeLoopStart','(s : State) (t : Tid) (n : NoteId) (par : Option NoteId)','s t n par','freeLoopStartPc (s.notes n).children n par'),
               ('enterChild','(s : State) (t : Tid) (n : NoteId) (par : Option NoteId) (k : NK)','s t n par k','.chd .ld [⟨n, none⟩] ⟨n, par, k⟩')]:
    for f in sfields:
        if f=='pc': continue
        out.append('@[simp] theorem %s_%s %s : (%s %s).%s = s.%s := rfl' % (H,f,b,H,args,f,f))
    out.append('@[simp] theorem %s_pc %s :\n    (%s %s).pc = upd s.pc t (%s) := rfl' % (H,b,H,args,pc))
out.append('\nend Note\n')
open(sys.argv[1],'w').write('\n'.join(out))
