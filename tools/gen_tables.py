"""T-gen: tables regenerated from /repo's CURRENT sources on every run and compared, by kernel-checked
`decide` lemmas (lean/NsyncVerif/Proofs/Tie.lean), with what the model assumes.
  G1 constants   : the word-bit masks of internal/common.h, lock-type tables of common.c, LONG_WAIT_THRESHOLD
  G2 orders      : the memory order each ATM_* macro requests in platform/{gcc_new,c++11,c11}/atomic.h
  G3 sites       : every ATM_* call site of internal/*.c and the futex semaphore (file, function, macro, location)"""
import os, re, subprocess, sys

ORD = {"relaxed": 0, "acquire": 1, "release": 2, "acq_rel": 3}
MACROS = ["ATM_LOAD", "ATM_LOAD_ACQ", "ATM_STORE", "ATM_STORE_REL", "ATM_CAS", "ATM_CAS_ACQ", "ATM_CAS_REL", "ATM_CAS_RELACQ"]


def strip_comments(t):
    return re.sub(r"/\*.*?\*/", lambda m: " " * 0 + "\n" * m.group(0).count("\n"), t, flags=re.S)


def orders_of(path):
    t = strip_comments(open(path).read())
    fn = {}
    for m in re.finditer(r"atm_cas_(\w+?)_u32_\s*\([^)]*\)\s*\{(.*?)\}", t, flags=re.S):
        os_ = re.findall(r"(?:__ATOMIC_|memory_order_)(\w+)", m.group(2))
        fn[m.group(1)] = [o.lower() for o in os_]
    res = {}
    for m in re.finditer(r"#define\s+(ATM_CAS\w*)\s*\(p,o,n\)\s+ATM_CAS_HELPER_\s*\(\s*(\w+)\s*,", t):
        o = fn.get(m.group(2), ["?", "?"])
        res[m.group(1)] = (o[0] if o else "?", o[1] if len(o) > 1 else "?")
    for m in re.finditer(r"#define\s+(ATM_(?:LOAD|STORE)\w*)\s*\([^)]*\)\s+(.*)", t):
        o = re.findall(r"(?:__ATOMIC_|memory_order_)(\w+)", m.group(2))
        res[m.group(1)] = (o[0].lower() if o else "?", "-")
    return res


def sites_of(path):
    t = strip_comments(open(path).read())
    out = []
    func = "?"
    depth = 0
    lines = t.split("\n")
    i = 0
    # function detection: a line at brace depth 0 that ends with "{" and contains "name ("
    for ln in lines:
        if depth == 0:
            m = re.match(r"^[A-Za-z_].*?\b(\w+)\s*\([^;]*$", ln)
            if m and not ln.strip().startswith("#") and not ln.strip().startswith("typedef"):
                func_candidate = m.group(1)
                if "{" in ln or True:
                    func = func_candidate
        for m in re.finditer(r"\b(ATM_(?:LOAD_ACQ|LOAD|STORE_REL|STORE|CAS_RELACQ|CAS_ACQ|CAS_REL|CAS))\s*\(", ln):
            if ln.lstrip().startswith("#define"):
                # macro bodies (NOTIFIED_TIME) count as sites of the header
                pass
            # first argument: balanced parentheses up to the first top-level comma or closing paren
            j = m.end(); d = 0; arg = ""
            while j < len(ln):
                c = ln[j]
                if c == "(": d += 1
                elif c == ")":
                    if d == 0: break
                    d -= 1
                elif c == "," and d == 0: break
                arg += c; j += 1
            out.append((os.path.basename(path), "(macro)" if path.endswith(".h") else func, m.group(1), re.sub(r"\s+", " ", arg.strip())))
        depth += ln.count("{") - ln.count("}")
    return out


SRC_FILES = ["internal/common.c", "internal/common.h", "internal/counter.c", "internal/cv.c", "internal/debug.c", "internal/dll.c", "internal/dll.h",
             "internal/mu.c", "internal/mu_wait.c", "internal/note.c", "internal/once.c", "internal/sem.h", "internal/sem_wait.c",
             "internal/time_internal.c", "internal/wait.c", "platform/linux/src/nsync_semaphore_futex.c", "platform/posix/src/time_rep.c",
             "platform/c++11/src/time_rep_timespec.cc"]


def funcs_of(repo, rel):
    """G4: (file, function, fingerprint) for every function of a C file — the fingerprint is a hash of the function's text
    with comments removed and white space collapsed, so that reformatting and comments do not change it but any change
    of a token does; what is outside any function (declarations, macros, struct definitions) is the pseudo-function
    `(file scope)`; headers are one entry per `#define` plus `(file scope)`."""
    import hashlib
    t = strip_comments(open(os.path.join(repo, rel)).read())
    base = os.path.basename(rel)
    def h(x):
        return hashlib.sha256(re.sub(r"\s+", " ", x).strip().encode()).hexdigest()[:16]
    out = []
    lines = t.split("\n")
    if rel.endswith(".h"):
        rest = []; i = 0
        while i < len(lines):
            ln = lines[i]
            m = re.match(r"\s*#\s*define\s+(\w+)", ln)
            if m:
                body = ln
                while body.rstrip().endswith("\\") and i + 1 < len(lines):
                    i += 1; body += "\n" + lines[i]
                out.append((base, "#define " + m.group(1), h(body)))
            else:
                rest.append(ln)
            i += 1
        out.append((base, "(file scope)", h("\n".join(rest))))
        return out
    depth = 0; func = None; cand = None; body = []; scope = []; seen = {}
    for ln in lines:
        if depth == 0 and func is None:
            m = re.match(r"^[A-Za-z_].*?\b(\w+)\s*\([^;]*$", ln)
            if m and not ln.strip().startswith("#") and not ln.strip().startswith("typedef"):
                cand = m.group(1); candlines = [ln]
            elif cand is not None and "{" not in ln and ";" not in ln:
                candlines.append(ln)
            if cand is not None and "{" in ln:
                func = cand; body = list(candlines) if candlines[-1] is ln else candlines + [ln]; cand = None
            elif cand is None or ";" in ln:
                if ";" in ln: cand = None
                scope.append(ln)
        elif func is not None:
            body.append(ln)
        depth += ln.count("{") - ln.count("}")
        if func is not None and depth == 0 and "}" in ln:
            k = seen.get(func, 0); seen[func] = k + 1
            out.append((base, func if k == 0 else "%s#%d" % (func, k + 1), h("\n".join(body))))
            func = None; body = []
    out.append((base, "(file scope)", h("\n".join(scope))))
    return out


def all_funcs(repo):
    rows = []
    for rel in SRC_FILES:
        if os.path.exists(os.path.join(repo, rel)):
            rows += funcs_of(repo, rel)
    return rows


def funcs_table(rows, ns, name):
    return ("def %s : List (String × String × String) := [\n" % name + ",\n".join("  (%s, %s, %s)" % tuple(lean_str(x) for x in r) for r in rows) + "\n]\n")


def expected_funcs(lean_dir):
    """the frozen G4 table, parsed back from Model/ExpectedSrc.lean"""
    try:
        t = open(os.path.join(lean_dir, "NsyncVerif", "Model", "ExpectedSrc.lean")).read()
    except FileNotFoundError:
        return []
    return re.findall(r'\("([^"]*)", "([^"]*)", "([0-9a-f]*)"\)', t)


def changed_funcs(repo, lean_dir):
    """functions whose text differs from the frozen fingerprints: [(file, function, what)]"""
    cur = {(a, b): c for a, b, c in all_funcs(repo)}
    exp = {(a, b): c for a, b, c in expected_funcs(lean_dir)}
    out = []
    for k in sorted(set(cur) | set(exp)):
        if cur.get(k) != exp.get(k):
            out.append((k[0], k[1], "changed" if k in cur and k in exp else ("new" if k in cur else "removed")))
    return out


def consts_of(repo):
    """compile and run a probe printing the constants (uses the repo's own headers)"""
    probe = r'''
#include "nsync_cpp.h"
#include "platform.h"
#include "compiler.h"
#include "cputype.h"
#include "nsync.h"
#include "dll.h"
#include "sem.h"
#include "wait_internal.h"
#include "common.h"
#include "atomic.h"
#include <stdio.h>
#define P(x) printf ("%s %lu\n", #x, (unsigned long) (x))
int main (void) {
  P (MU_WLOCK); P (MU_SPINLOCK); P (MU_WAITING); P (MU_DESIG_WAKER); P (MU_CONDITION); P (MU_WRITER_WAITING); P (MU_LONG_WAIT); P (MU_ALL_FALSE); P (MU_RLOCK);
  P (MU_RLOCK_FIELD & 0xffffffffu); P (MU_ANY_LOCK & 0xffffffffu); P (MU_WZERO_TO_ACQUIRE & 0xffffffffu); P (MU_WADD_TO_ACQUIRE); P (MU_WHELD_IF_NON_ZERO); P (MU_WSET_WHEN_WAITING);
  P (MU_WCLEAR_ON_ACQUIRE); P (MU_WCLEAR_ON_UNCONTENDED_RELEASE); P (MU_RZERO_TO_ACQUIRE); P (MU_RADD_TO_ACQUIRE); P (MU_RHELD_IF_NON_ZERO & 0xffffffffu);
  P (MU_RSET_WHEN_WAITING); P (MU_RCLEAR_ON_ACQUIRE); P (MU_RCLEAR_ON_UNCONTENDED_RELEASE); P (CV_SPINLOCK); P (CV_NON_EMPTY); P (LONG_WAIT_THRESHOLD);
  P (nsync_writer_type_->zero_to_acquire); P (nsync_writer_type_->add_to_acquire); P (nsync_writer_type_->held_if_non_zero); P (nsync_writer_type_->set_when_waiting);
  P (nsync_writer_type_->clear_on_acquire); P (nsync_writer_type_->clear_on_uncontended_release);
  P (nsync_reader_type_->zero_to_acquire); P (nsync_reader_type_->add_to_acquire); P (nsync_reader_type_->held_if_non_zero); P (nsync_reader_type_->set_when_waiting);
  P (nsync_reader_type_->clear_on_acquire); P (nsync_reader_type_->clear_on_uncontended_release);
  P (NSYNC_WAITER_FLAG_MUCV); P (sizeof (nsync_mu)); P (sizeof (nsync_cv));
  return 0; }
'''
    import tempfile
    d = tempfile.mkdtemp(dir=os.path.join(os.path.dirname(os.path.dirname(os.path.abspath(__file__))), ".cache"))
    src = os.path.join(d, "p.c"); exe = os.path.join(d, "p")
    open(src, "w").write(probe)
    inc = ["-I%s/platform/%s" % (repo, x) for x in ("linux", "gcc", "posix", "x86_64")] + ["-I%s/public" % repo, "-I%s/internal" % repo]
    r = subprocess.run(["gcc", "-O0", "-w"] + inc + [src, "%s/internal/common.c" % repo, "%s/internal/dll.c" % repo, "-c", "-o", os.path.join(d, "x.o")], capture_output=True, text=True)
    r = subprocess.run(["gcc", "-O0", "-w"] + inc + [src] + ["%s/internal/%s.c" % (repo, f) for f in ("common", "counter", "cv", "debug", "dll", "mu", "mu_wait", "note", "once", "sem_wait", "time_internal", "wait")] +
                       ["%s/platform/posix/src/%s.c" % (repo, f) for f in ("nsync_panic", "per_thread_waiter", "time_rep", "yield")] + ["%s/platform/linux/src/nsync_semaphore_futex.c" % repo, "-lpthread", "-o", exe], capture_output=True, text=True)
    out = []
    if r.returncode == 0:
        o = subprocess.run([exe], capture_output=True, text=True).stdout
        for ln in o.splitlines():
            k, v = ln.rsplit(" ", 1)
            out.append((k, int(v)))
    import shutil; shutil.rmtree(d, ignore_errors=True)
    return out


def lean_str(s):
    return '"' + s.replace("\\", "\\\\").replace('"', '\\"') + '"'


def generate(repo, lean_dir):
    g = os.path.join(lean_dir, "NsyncVerif", "Gen")
    os.makedirs(g, exist_ok=True)
    # G2
    rows = []
    for fl in ("gcc_new", "c++11", "c11"):
        o = orders_of(os.path.join(repo, "platform", fl, "atomic.h"))
        for mname in MACROS:
            s, f = o.get(mname, ("?", "?"))
            rows.append('  (%s, %s, %d, %d)' % (lean_str(fl), lean_str(mname), ORD.get(s, 9), ORD.get(f, 8) if f != "-" else 7))
    txt = "-- GENERATED by tools/gen_tables.py from platform/*/atomic.h on every run. Do not edit.\nnamespace NsyncVerif.Gen\n/-- (flavour, macro, success order, failure order); orders: 0 relaxed, 1 acquire, 2 release, 3 acq_rel; 7 = not a CAS -/\ndef orders : List (String × String × Nat × Nat) := [\n" + ",\n".join(rows) + "\n]\nend NsyncVerif.Gen\n"
    write_if_changed(os.path.join(g, "Orders.lean"), txt)
    # G3
    files = sorted(f for f in os.listdir(os.path.join(repo, "internal")) if f.endswith(".c") or f == "common.h")
    rows = []
    for f in files:
        for s in sites_of(os.path.join(repo, "internal", f)):
            rows.append("  (%s, %s, %s, %s)" % tuple(lean_str(x) for x in s))
    for s in sites_of(os.path.join(repo, "platform", "linux", "src", "nsync_semaphore_futex.c")):
        rows.append("  (%s, %s, %s, %s)" % tuple(lean_str(x) for x in s))
    txt = "-- GENERATED by tools/gen_tables.py from internal/*.c, internal/common.h and the futex semaphore on every run. Do not edit.\nnamespace NsyncVerif.Gen\n/-- (file, enclosing function, macro, location expression) of every ATM_* call site, in source order -/\ndef sites : List (String × String × String × String) := [\n" + ",\n".join(rows) + "\n]\nend NsyncVerif.Gen\n"
    write_if_changed(os.path.join(g, "Sites.lean"), txt)
    # G1
    cs = consts_of(repo)
    txt = "-- GENERATED by tools/gen_tables.py (compiled probe over internal/common.h, common.c) on every run. Do not edit.\nnamespace NsyncVerif.Gen\ndef consts : List (String × Nat) := [\n" + ",\n".join("  (%s, %d)" % (lean_str(k), v) for k, v in cs) + "\n]\nend NsyncVerif.Gen\n"
    write_if_changed(os.path.join(g, "Consts.lean"), txt)
    # G4
    txt = "-- GENERATED by tools/gen_tables.py (fingerprints of the text of every function of the modelled sources) on every run. Do not edit.\nnamespace NsyncVerif.Gen\n/-- (file, function, hash of the comment-free, white-space-normalised text) -/\n" + funcs_table(all_funcs(repo), "Gen", "funcs") + "end NsyncVerif.Gen\n"
    write_if_changed(os.path.join(g, "Funcs.lean"), txt)


def write_if_changed(path, txt):
    try:
        if open(path).read() == txt:
            return
    except FileNotFoundError:
        pass
    open(path, "w").write(txt)


def freeze(repo, lean_dir):
    """Write the COMMITTED expectation (lean/NsyncVerif/Model/Expected.lean) from the current tree.  Run by hand
    when the model has been brought in line with a deliberate change of the sources; never by ./check."""
    files = sorted(f for f in os.listdir(os.path.join(repo, "internal")) if f.endswith(".c") or f == "common.h")
    sites = []
    for f in files:
        sites += sites_of(os.path.join(repo, "internal", f))
    sites += sites_of(os.path.join(repo, "platform", "linux", "src", "nsync_semaphore_futex.c"))
    writes = [x for x in sites if "CAS" in x[2] or "STORE" in x[2]]
    acq = {}
    for x in sites:
        if x[2] == "ATM_LOAD_ACQ":
            acq[(x[0], x[1], x[3])] = acq.get((x[0], x[1], x[3]), 0) + 1
    rows_o = []
    for fl in ("gcc_new", "c++11", "c11"):
        o = orders_of(os.path.join(repo, "platform", fl, "atomic.h"))
        for mname in MACROS:
            sx, fx = o.get(mname, ("?", "?"))
            rows_o.append('  (%s, %s, %d, %d)' % (lean_str(fl), lean_str(mname), ORD.get(sx, 9), ORD.get(fx, 8) if fx != "-" else 7))
    cs = consts_of(repo)
    txt = ("/-\n  Expected — what the models assume about the sources, frozen from the tree the models were written against\n"
           "  (tools/gen_tables.py --freeze).  Proofs/Tie.lean proves, on every run, that the tables REGENERATED from the current\n"
           "  sources (NsyncVerif/Gen/*.lean) still agree with these.\n-/\nnamespace NsyncVerif.Expected\n"
           "/-- every ATM_* site that WRITES (CAS*/STORE*): (file, function, macro, location expression), in source order -/\n"
           "def writes : List (String × String × String × String) := [\n" + ",\n".join("  (%s, %s, %s, %s)" % tuple(lean_str(y) for y in x) for x in writes) + "\n]\n"
           "/-- acquire loads: ((file, function, location), how many) -/\n"
           "def acqLoads : List ((String × String × String) × Nat) := [\n" + ",\n".join("  ((%s, %s, %s), %d)" % (lean_str(k[0]), lean_str(k[1]), lean_str(k[2]), v) for k, v in sorted(acq.items())) + "\n]\n"
           "def orders : List (String × String × Nat × Nat) := [\n" + ",\n".join(rows_o) + "\n]\n"
           "def consts : List (String × Nat) := [\n" + ",\n".join("  (%s, %d)" % (lean_str(k), v) for k, v in cs) + "\n]\n"
           "end NsyncVerif.Expected\n")
    open(os.path.join(lean_dir, "NsyncVerif", "Model", "Expected.lean"), "w").write(txt)
    txt = ("/-\n  ExpectedSrc — fingerprints of the source text the models were VALIDATED against (lockstep, differential runs, the\n"
           "  builders' mutation rounds), frozen by tools/gen_tables.py --freeze.  Proofs/TieSrc/*.lean prove on every run that the\n"
           "  functions each layer models still have exactly this text (comments and white space aside).  A changed function is a\n"
           "  broken tie: the model must be re-validated against the new text before its theorems say anything about it.\n-/\n"
           "namespace NsyncVerif.ExpectedSrc\n" + funcs_table(all_funcs(repo), "ExpectedSrc", "funcs") + "end NsyncVerif.ExpectedSrc\n")
    open(os.path.join(lean_dir, "NsyncVerif", "Model", "ExpectedSrc.lean"), "w").write(txt)


if __name__ == "__main__":
    if "--freeze" in sys.argv:
        freeze("/repo", "/verif/lean"); sys.exit(0)
    generate(sys.argv[1] if len(sys.argv) > 1 else "/repo", sys.argv[2] if len(sys.argv) > 2 else "/verif/lean")
