#!/usr/bin/env python3
"""Regenerate the table of DESIGN.md section 12 from seeded/*/meta.json."""
import glob, json, os
V = os.path.dirname(os.path.dirname(os.path.abspath(__file__)))
p = os.path.join(V, "DESIGN.md"); s = open(p).read()
rows = []
for d in sorted(glob.glob(os.path.join(V, "seeded", "*", ""))):
    m = json.load(open(d + "meta.json")); name = os.path.basename(d[:-1])
    det = "; ".join("%s: %s" % (k, v) for k, v in m.get("detected_by", {}).items())
    rows.append("| `%s` | %s | %s | %s |" % (name, m["property"], m.get("needs", "").replace("|", "/"), det.replace("|", "/")))
a = s.index("| seed | property | what it needs to manifest | caught by |"); b = s.index("(The table is generated from")
s = s[:a] + "| seed | property | what it needs to manifest | caught by |\n|---|---|---|---|\n" + "\n".join(rows) + "\n\n" + s[b:]
open(p, "w").write(s)
print(len(rows), "seeds")
