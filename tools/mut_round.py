"""usage: mut_round.py <Cxx> <suffix>   create the scratch worktree /tmp/mut_<Cxx><suffix> of /repo and print the prompt for a
fresh mutation sub-agent (property text only + the list of changes already made for that property, to avoid)."""
import glob, json, subprocess, sys
pid, sfx = sys.argv[1], sys.argv[2]
for l in open('/verif/properties.jsonl'):
    d = json.loads(l)
    if d['id'] == pid:
        open('/tmp/mut_%s.prop.txt' % pid, 'w').write(d.get('statement') or d.get('text'))
wt = '/tmp/mut_%s%s' % (pid, sfx)
subprocess.run(['git', '-C', '/repo', 'worktree', 'add', '--detach', wt, 'HEAD'], capture_output=True)
base = subprocess.run(['python3', '/verif/tools/mut_prompt.py', pid], capture_output=True, text=True).stdout
base = base.replace('/tmp/mut_%s_out' % pid, wt + '_out')
for tail in (' ', ')', '&', '/', '\n'):
    base = base.replace('/tmp/mut_%s%s' % (pid, tail), wt + tail)
avoid = [json.load(open(f))['change'] for f in sorted(glob.glob('/verif/seeded/%s-*/meta.json' % pid))]
print(base + "\n\nADDITIONAL CONSTRAINT: previous attempts already produced the following changes, so yours must be of a DIFFERENT kind, in a different function and exercising a different mechanism:\n- " + "\n- ".join(avoid) + "\n")
