"""Regenerates MANIFEST.json from tools/props.py (claimed checks) + properties.jsonl (the rest → not_applicable)."""
import json, os, sys
sys.path.insert(0, os.path.dirname(os.path.abspath(__file__)))
import props as P
V = os.path.dirname(os.path.dirname(os.path.abspath(__file__)))
allp = [json.loads(l) for l in open(os.path.join(V, "properties.jsonl"))]
checks = []
for p in allp:
    pid = p["id"]
    if pid not in P.PROPS or not P.PROPS[pid].get('claim', True): continue
    s = P.PROPS[pid]
    checks.append({
        "property_id": pid,
        "quick_cmd": "./check %s --tier quick" % pid,
        "thorough_cmd": "./check %s --tier thorough" % pid,
        "evidence_file": "/verif/evidence/%s.json" % pid,
        "replay_cmd_template": "./check replay {path}",
        "engine": "lean-model+" + s.get("engine", "lockstep-harness"),
        "level_claimed": {"category": "proof", "text": s["level_text"], "design_ref": "DESIGN.md section 6, " + pid},
        "level_note": s["level_note"],
        "technique": s.get("technique", "Lean 4 theorems (inductive invariants) over an executable model; model tied to the code by lockstep replay of real executions / differential runs"),
    })
na = [{"property_id": p["id"], "reason": P.NOT_YET.get(p["id"], "check not built yet (work in progress)")} for p in allp if p["id"] not in P.PROPS or not P.PROPS[p["id"]].get('claim', True)]
m = {"version": 1, "setup_cmd": "./check setup",
     "hooks": {"guard": "NSYNC_VERIF", "enable": "none needed: the unmodified sources are compiled against /verif/harness/platform (include-path substitution of atomic.h/platform.h) with clang -fsanitize=thread callbacks provided by the harness; no guarded code exists in /repo",
               "baseline_off_cmd": "cmake --build /repo/_build && ctest --test-dir /repo/_build -j8 --timeout 900", "source_commits": [], "add_only": True},
     "engines": [{"name": "lean-model", "path": "/verif/lean", "serves_properties": sorted(k for k in P.PROPS if P.PROPS[k].get("claim", True)), "kind_free_text": "Lean 4 model + theorems + replay driver (lean_exe)"},
                 {"name": "lockstep-harness", "path": "/verif/harness", "serves_properties": sorted(k for k in P.PROPS if P.PROPS[k].get('claim', True) and P.PROPS[k].get("engine", "lockstep-harness") == "lockstep-harness"), "kind_free_text": "deterministic fiber scheduler running the real nsync sources; event log replayed through the Lean acceptors; implementation-side oracles"},
                 {"name": "pure-differential", "path": "/verif/harness/pure", "serves_properties": sorted(k for k in P.PROPS if P.PROPS[k].get('claim', True) and P.PROPS[k].get("engine") == "pure-differential"), "kind_free_text": "real C/C++ objects vs Lean model on the same inputs"}],
     "checks": checks, "notes": "see DESIGN.md; fixes to /repo are 'fix:' commits listed in known_findings.json", "not_applicable": na}
json.dump(m, open(os.path.join(V, "MANIFEST.json"), "w"), indent=1)
print("claimed:", [c["property_id"] for c in checks])
