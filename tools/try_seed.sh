#!/bin/sh
# usage: try_seed.sh <patch.diff> <Cxx>...   apply a seeded change to /repo, run the listed checks, undo.
set -u
patch="$1"; shift
cd /verif
if ! git -C /repo apply --check "$patch" 2>/dev/null; then echo "patch does not apply"; exit 2; fi
git -C /repo apply "$patch"
for p in "$@"; do
  out=$(./check "$p" 2>&1); rc=$?
  echo "== $p exit=$rc"; echo "$out" | grep -E "VIOLATION|KNOWN-FINDING" | head -3
  rp=$(echo "$out" | sed -n 's/.*replay=\([^ ]*\).*/\1/p' | head -1)
  [ -n "$rp" ] && head -6 "$rp" | sed 's/^/     /'
done
git -C /repo checkout -- . 
git -C /repo status --short | grep -v _build
