#!/bin/sh
# usage: seed_regress_par.sh [workers]   parallel form of seed_regress.sh: every worker owns a scratch copy of /verif and a
# scratch worktree of /repo under /tmp/vr_<k> (VERIF_REPO points the check at it), so /repo itself is never patched and
# other checks may run meanwhile.  Result: seeded/REGRESSION.txt.  The scratch copies are removed at the end.
K=${1:-6}
cd "$(dirname "$0")/.."; V=$PWD
ls -d seeded/*/ | sed 's#seeded/##; s#/##' > /tmp/vr_seeds.txt
for k in $(seq 1 $K); do
  ( W=/tmp/vr_$k; rm -rf $W; mkdir -p $W
    rsync -a --exclude .git --exclude evidence/replays --exclude .cache $V/ $W/verif/
    git -C /repo worktree add --detach $W/repo HEAD >/dev/null 2>&1
    : > $W/result.txt
    awk -v k=$k -v K=$K 'NR % K == k % K' /tmp/vr_seeds.txt | while read n; do
      d=$V/seeded/$n; p=$(python3 -c "import json; print(json.load(open('$d/meta.json'))['property'])")
      if ! git -C $W/repo apply --check "$d/patch.diff" 2>/dev/null; then echo "$n $p PATCH-DOES-NOT-APPLY" >> $W/result.txt; continue; fi
      git -C $W/repo apply "$d/patch.diff"
      o=$(cd $W/verif && VERIF_REPO=$W/repo ./check $p 2>&1); rc=$?
      git -C $W/repo checkout -- .
      if [ $rc = 0 ]; then r=MISSED; elif echo "$o" | grep -q "no-failing-input-found"; then r=no-failing-input-found; else r=replay; fi
      echo "$n $p $r" >> $W/result.txt
    done ) &
done
wait
cat /tmp/vr_*/result.txt | sort > seeded/REGRESSION.txt
for k in $(seq 1 $K); do git -C /repo worktree remove --force /tmp/vr_$k/repo 2>/dev/null; rm -rf /tmp/vr_$k; done
git -C /repo worktree prune; rm -f /tmp/vr_seeds.txt
awk '{c[$3]++} END{for(k in c) print k, c[k]}' seeded/REGRESSION.txt
