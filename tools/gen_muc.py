"""Scenario generator for the MuC layer (property C06, nsync_mu_wait part of C05).  Same conventions as
gen.py: every random choice derives from the random.Random passed in; a scenario is a block of text
understood by harness/scen/scen.c.

fam_muc(rng)   2-4 waiters in nsync_mu_wait_with_deadline on mu0 over the conditions
                 c0: x0 == 1            c1, c2: x0 == 1 with condition_arg_eq (equivalent arguments)
                 c3: x0 >= 1            c4: x1 == 1            (or no condition)
               in reader or writer mode, deadlines inf | p<ns> | m<ns>, optionally a cancel note (with
               or without its own deadline, notified by another fiber or not at all);
               setters that make the conditions true step by step (x0: 0 -> [2 ->] [0 ->] 1, x1: 0 -> 1;
               a quarter of the scenarios "flap": x0 goes 0 -> 2 -> 0 -> 1 with a `ge` waiter that is woken,
               finds its condition false again and waits anew at the FRONT of the queue),
               every section that can make a condition true ends with nsync_mu_unlock;
               sections ending with nsync_mu_unlock_without_wakeup that respect its contract (they write
               x2, which no condition reads, or set x0 := 0, which makes no condition true);
               extra plain lockers (lock / rlock / trylock / rtrylock sections reading x0).
               All variables start at 0 and are only written by fibers holding mu0 in write mode (the
               MuC driver assumes both).  Every untimed waiter's condition holds in the final state
               x0 = 1, x1 = 1, so no execution may end `stuck`.

Usage as a script:  gen_muc.py <seed> <n_scenarios> <n_execs> <out.batch>
"""
import random
import sys


def execs(rng, n, tick_choices=(0, 20, 100, 300)):
    out = []
    for _ in range(n):
        out.append("exec seed=%d strategy=%d tick=%d" % (rng.randrange(1, 1 << 30), rng.choice([0, 0, 1, 2, 3]), rng.choice(tick_choices)))
    return out


HDR = ["var x0 0 mu0", "var x1 0 mu0", "var x2 0 mu0",
       "cond c0 eq x0 1", "cond c1 eq x0 1 eq", "cond c2 eq x0 1 eq", "cond c3 ge x0 1", "cond c4 eq x1 1"]


def fam_muc(rng):
    lines = ["sem %s" % rng.choice(["counting", "binary"]), "objs mu=1 cv=0 var=3"] + list(HDR)
    use_note = rng.random() < 0.3
    if use_note:
        lines.append("pre note_new n0 - %s" % rng.choice(["inf", "inf", "p3000", "p70000", "m5"]))
    nw = rng.choice([2, 2, 3, 3, 4])
    flap = rng.random() < 0.25      # x0: 0 -> 2 -> 0 -> 1 with a `ge` waiter: woken, finds its condition false again, re-waits
    for i in range(nw):
        c = rng.choice(["c0", "c0", "c1", "c1", "c2", "c2", "c3", "c4", "-"])
        if flap and i == 0: c = "c3"
        if flap and i == 1: c = "c4"
        dl = rng.choice(["inf", "inf", "inf", "p1000", "p60000", "p400000", "m5"])
        rd = rng.random() < 0.4
        w = "muwait mu0 %s %s" % (c, dl) if c != "-" else "muwait mu0"
        if c != "-" and use_note and rng.random() < 0.6:
            w += " n0"
        ops = ["rlock mu0" if rd else "lock mu0", w, "rd x0"]
        if not rd and rng.random() < 0.2:
            ops.append("inc x2")
        if rng.random() < 0.15:
            # a second wait in the same section (condition already true, or a timed wait)
            ops.append("muwait mu0 %s %s" % (rng.choice(["c3", "c4"]), rng.choice(["p2000", "m5", "inf"])))
        if not rd and rng.random() < 0.15:
            ops.append("unlock_nw mu0")      # the section wrote at most x2
        else:
            ops.append("runlock mu0" if rd else "unlock mu0")
        lines.append("fiber " + " ; ".join(ops))
    # setters
    x0steps = []
    if flap or rng.random() < 0.3:
        x0steps.append(["lock mu0", "wr x0 2", "unlock mu0"])          # c3 becomes true, c0-c2 stay false
    if flap or rng.random() < 0.3:
        x0steps.append(["lock mu0", "wr x0 0", rng.choice(["unlock mu0", "unlock_nw mu0"])])   # makes nothing true
    x0steps.append(["lock mu0", "wr x0 1", "unlock mu0"])
    x1steps = [["lock mu0", "wr x1 1", "unlock mu0"]]
    if rng.random() < 0.5:
        pre = ["yield"] * rng.randrange(0, 3)
        k = rng.randrange(0, len(x0steps) + 1)
        seq = x0steps[:k] + x1steps + x0steps[k:]
        lines.append("fiber " + " ; ".join(pre + [o for s in seq for o in s]))
    else:
        lines.append("fiber " + " ; ".join(["yield"] * rng.randrange(0, 3) + [o for s in x0steps for o in s]))
        lines.append("fiber " + " ; ".join(["yield"] * rng.randrange(0, 4) + [o for s in x1steps for o in s]))
    # sections that end with unlock_without_wakeup and respect its contract
    for _ in range(rng.choice([0, 1, 1, 2])):
        ops = ["yield"] * rng.randrange(0, 3)
        for _ in range(rng.choice([1, 2])):
            ops += ["lock mu0", rng.choice(["wr x2 5", "inc x2", "rd x0"]), "unlock_nw mu0"]
        lines.append("fiber " + " ; ".join(ops))
    # plain lockers
    for _ in range(rng.choice([0, 0, 1, 2])):
        m = rng.choice(["lock", "rlock", "rlock", "trylock", "rtrylock"])
        if m == "lock":
            ops = ["lock mu0", "rd x0", "unlock mu0"]
        elif m == "rlock":
            ops = ["rlock mu0", "rd x0", "runlock mu0"]
        elif m == "trylock":
            ops = ["trylock mu0", "unlock_if mu0"]
        else:
            ops = ["rtrylock mu0", "runlock_if mu0"]
        lines.append("fiber " + " ; ".join(["yield"] * rng.randrange(0, 3) + ops))
    if use_note and rng.random() < 0.7:
        lines.append("fiber " + " ; ".join(["yield"] * rng.randrange(0, 4) + ["notify n0"]))
    return lines


def make_batch(path, seed, ns, ne):
    rng = random.Random(seed)
    with open(path, "w") as f:
        for _ in range(ns):
            lines = fam_muc(rng)
            f.write("\n".join(lines) + "\n" + "\n".join(execs(rng, ne)) + "\n---\n")


if __name__ == "__main__":
    make_batch(sys.argv[4], int(sys.argv[1]), int(sys.argv[2]), int(sys.argv[3]))
