#!/bin/sh
# usage: try_seed_scratch.sh <patch.diff> <Cxx>...   like try_seed.sh, but in a scratch copy of /verif and a scratch worktree of
# /repo under /tmp (VERIF_REPO), so that /repo is never patched and other checks may run at the same time.
set -u
patch="$1"; shift
W=/tmp/vt_$$; rm -rf $W; mkdir -p $W
rsync -a --exclude .git --exclude evidence/replays --exclude .cache /verif/ $W/verif/
git -C /repo worktree add --detach $W/repo HEAD >/dev/null 2>&1
if ! git -C $W/repo apply --check "$patch" 2>/dev/null; then echo "patch does not apply"; else
  git -C $W/repo apply "$patch"
  for p in "$@"; do
    out=$(cd $W/verif && VERIF_REPO=$W/repo ./check "$p" 2>&1); rc=$?
    echo "== $p exit=$rc"; echo "$out" | grep -E "VIOLATION|KNOWN-FINDING" | head -3
    rp=$(echo "$out" | sed -n 's/.*replay=\([^ ]*\).*/\1/p' | head -1)
    [ -n "$rp" ] && head -6 "$rp" | sed 's/^/     /'
  done
fi
git -C /repo worktree remove --force $W/repo 2>/dev/null; rm -rf $W; git -C /repo worktree prune
