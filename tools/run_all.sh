#!/bin/sh
# run every claimed check (quick tier) in parallel and summarise; used before committing evidence
cd "$(dirname "$0")/.."
ids=$(python3 -c "import json; print(' '.join(c['property_id'] for c in json.load(open('MANIFEST.json'))['checks']))")
for p in $ids; do ( ./check $p > .cache/runall_$p.out 2>&1; echo "$p exit=$?" >> .cache/runall_$p.out ) & done; wait
for p in $ids; do tail -1 .cache/runall_$p.out; grep -h "VIOLATION\|KNOWN-FINDING" .cache/runall_$p.out; done
python3 - <<'PY'
import json,glob
for f in sorted(glob.glob('evidence/C*.json')):
    e=json.load(open(f)); c=e['coverage']
    flag = '' if c['obligations']==c['discharged'] and e.get('violations',0)==0 else '   <<<<<< NOT CLEAN'
    print(e['property_id'], c['obligations'], c['discharged'], c['evaluations'], c['distinct_nontrivial'], e['wall_s'], flag)
PY
