"""Per-property configuration of ./check: required theorems, acceptor layers, scenario plan, oracles."""

TRUSTED_BASE = [
    "Lean 4.33.0 kernel; axioms allowed: propext, Classical.choice, Quot.sound (audited by #print axioms on every run); no sorry/admit/native_decide/bv_decide/own axioms",
    "the theorem is about the Lean model; the tie to /repo is the lockstep replay of real executions (harness: unmodified nsync sources compiled against harness/platform, every ATM_* macro is a scheduling point) through the model's acceptor, which establishes model = code on the executions run (coverage reported), not on all",
    "harness runtime (fiber scheduler, virtual clock, abstract counting/binary semaphores, bump allocator, object registry, log) and the Lean driver's parser are unverified programs",
    "sequentially consistent interleavings of the library's atomic operations; plain code between two atomic operations executes with the preceding operation",
]

PROPS = {}
NOT_YET = {}

PROPS["C01"] = {
    "imports": ["NsyncVerif.Props.C01"],
    "theorems": ["NsyncVerif.Props.C01.C01_exclusion", "NsyncVerif.Props.C01.C01_reader_excludes_writer",
                 "NsyncVerif.Props.C01.C01_exclusion_ann", "NsyncVerif.Props.C01.C01_word_agrees",
                 "NsyncVerif.Props.C01.C01_store_sound"],
    "layers": ["mux"],
    "oracles": {"exclusion", "exclusion-ann", "panic"},
    "plan": {
        "quick": [("core", 60, 6), ("cv", 50, 6), ("cv_raw", 30, 6), ("muwait", 50, 6), ("waitn_cv", 30, 6), ("debug", 40, 6)],
        "thorough": [("core", 600, 12), ("cv", 500, 12), ("cv_raw", 300, 12), ("muwait", 500, 12), ("waitn_cv", 300, 12), ("debug", 400, 12), ("mixed", 500, 12)],
    },
    "level_text": "Kernel-checked theorems C01_exclusion / C01_reader_excludes_writer / C01_exclusion_ann / C01_word_agrees / C01_store_sound over the MuX model (one step per atomic operation on the mutex word, any number of threads, all interleavings, all acquisition paths incl. timeout/cancel re-acquisition and the plain release-stores); tied to the code by lockstep replay of harness executions of the real sources through the MuX acceptor, with exclusion oracles on the implementation side",
    "level_note": "Proved for the model; model=code is established on the executions replayed (sampled, coverage in evidence). Hint bits are uninterpreted in this layer. SC interleavings at atomic-operation granularity. Client contract assumed (acceptor rejects violations).",
    "trusted_extra": ["client contract (acceptor rejects otherwise): release only what you hold in the mode you hold it, no recursive acquisition, wait only while holding"],
}
