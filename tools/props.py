"""Per-property configuration of ./check: required theorems, acceptor layers, scenario plan, oracles."""

TRUSTED_BASE = [
    "Lean 4.33.0 kernel; axioms allowed: propext, Classical.choice, Quot.sound (audited by #print axioms on every run); no sorry/admit/native_decide/bv_decide/own axioms",
    "the theorem is about the Lean model; the tie to /repo is the lockstep replay of real executions (harness: unmodified nsync sources compiled against harness/platform, every ATM_* macro is a scheduling point) through the model's acceptor, which establishes model = code on the executions run (coverage reported), not on all",
    "harness runtime (fiber scheduler, virtual clock, abstract counting/binary semaphores, bump allocator, object registry, log) and the Lean driver's parser are unverified programs",
    "sequentially consistent interleavings of the library's atomic operations; plain code between two atomic operations executes with the preceding operation",
]

PROPS = {}
NOT_YET = {}

PROPS["C01"] = {
    "imports": ["NsyncVerif.Props.C01"],
    "theorems": ["NsyncVerif.Props.C01.C01_exclusion", "NsyncVerif.Props.C01.C01_reader_excludes_writer",
                 "NsyncVerif.Props.C01.C01_exclusion_ann", "NsyncVerif.Props.C01.C01_word_agrees",
                 "NsyncVerif.Props.C01.C01_store_sound"],
    "layers": ["mux"],
    "tie": ["NsyncVerif.Proofs.TieConsts"],
    "oracles": {"exclusion", "exclusion-ann", "panic"},
    "plan": {
        "quick": [("core", 60, 6), ("cv", 50, 6), ("cv_raw", 30, 6), ("muwait", 50, 6), ("waitn_cv", 30, 6), ("debug", 40, 6), ("cv_rsignal", 60, 8), ("waitn", 80, 8), ("waitn_rep", 60, 8), ("cancel_only", 40, 6), ("longwait_timeout", 30, 6), ("starve_mix", 20, 8), ("nw_release", 100, 10)],
        "thorough": [("cv_rsignal", 600, 16), ("core", 600, 12), ("cv", 500, 12), ("cv_raw", 300, 12), ("muwait", 500, 12), ("waitn_cv", 300, 12), ("debug", 400, 12), ("mixed", 500, 12), ("waitn", 800, 12), ("waitn_rep", 600, 12), ("cancel_only", 400, 12), ("longwait_timeout", 300, 10), ("starve_mix", 200, 12), ("nw_release", 1000, 20)],
    },
    "level_text": "Kernel-checked theorems C01_exclusion / C01_reader_excludes_writer / C01_exclusion_ann / C01_word_agrees / C01_store_sound over the MuX model (one step per atomic operation on the mutex word, any number of threads, all interleavings, all acquisition paths incl. timeout/cancel re-acquisition and the plain release-stores); tied to the code by lockstep replay of harness executions of the real sources through the MuX acceptor, with exclusion oracles on the implementation side",
    "level_note": "Proved for the model; model=code is established on the executions replayed (sampled, coverage in evidence). Hint bits are uninterpreted in this layer. SC interleavings at atomic-operation granularity. Client contract assumed (acceptor rejects violations).",
    "trusted_extra": ["client contract (acceptor rejects otherwise): release only what you hold in the mode you hold it, no recursive acquisition, wait only while holding"],
}

PROPS["C07"] = {
    "imports": ["NsyncVerif.Props.C07", "NsyncVerif.Props.C07Fair"],
    "theorems": ["Once." + t for t in ["C07_fair_termination", "C07_fair_exactly_once", "C07_fair_lock_free_again", "C07_fair_moves", "C07_fair_done",
                 "C07_fair_needs_weak_fair", "C07_fair_needs_init_returns", "C07_fair_needs_lock_fair", "fair_hyps"]] +
                ["Once." + t for t in ["C07_at_most_once", "C07_runner_is_caller", "C07_no_early_return", "C07_exactly_once",
                 "C07_return_only_when_done", "C07_word_meaning", "C07_winner_unique", "C07_word_monotone", "C07_done_is_wait_free",
                 "C07_done_only_path", "C07_no_stuck_state", "C07_progress", "C07_shared_slot_independent", "C07_all_hashings",
                 "C07_lock_discipline", "C07_spin_never_locks"]],
    "layers": ["once", "mux"],
    "oracles": {"once-early-return", "once-count", "stuck", "panic", "crash"},
    "plan": {"quick": [("once", 150, 8), ("once_nested", 80, 8)], "thorough": [("once", 1500, 16), ("once_nested", 800, 16)]},
    "family_layers": {"once_nested": ["mux"]},
    "level_text": "Kernel-checked theorems over the Once model (once.c statement by statement, one step per atomic operation / lock operation / callback boundary; any number of threads and once objects, arbitrary slot hashing): the function is entered at most once, only by the CAS winner; no call returns before the run completed; done calls are wait-free; no stuck state; deadlock freedom (C07_progress). Tied to the code by lockstep replay of harness executions of the real once.c through the Once acceptor (and the embedded mutex traffic through MuX).",
    "level_note": "The slot mutex/cv is abstract in this layer (single-step lock/unlock; justified by C01, whose acceptor replays the same logs). FAIR TERMINATION is a theorem (Props/C07Fair: C07_fair_termination, C07_fair_exactly_once — in every infinite execution of the Once model that is weakly fair, in which the acquisition of the slot mutex is strongly fair (LockFair: a thread that waits for a lock that is free again and again gets it) and every started initializer returns, every nsync_run_once* call returns, the initializer having run exactly once and ended); each hypothesis is shown necessary by an explicit fair execution — in particular weak fairness of the lock acquisition plus finitely many arrivals is NOT enough, because every timed-out cv wait of a loser (once.c:87-95) is a fresh acquisition of once_mu that can barge past the winner's second lock (C07_fair_needs_lock_fair): LockFair is the starvation-freedom of nsync_mu that C14's MU_LONG_WAIT mechanism is there to provide. Model=code on the executions replayed.",
    "trusted_extra": ["slot mutex behaves as a lock (C01/C02)"],
}

PROPS["C12"] = {
    "imports": ["NsyncVerif.Props.C12", "NsyncVerif.Props.C12Fair"],
    "theorems": ["NsyncVerif.Futex." + t for t in ["C12_fair_termination", "C12_fair_P_returns", "C12_fair_PD_returns", "C12_fair_V_returns", "C12_fair_post_arrives",
                 "C12_fair_V_returns_finite_calls", "C12_thread_enabled", "C12_kernel_due_enabled", "C12_fair_needs_kernel", "C12_fair_needs_kernel_timeout",
                 "C12_fair_needs_finite_spurious", "C12_fair_needs_bounded_posts", "C12_fair_needs_weak", "C12_fair_needs_post", "C12_fair_nonvacuous"]] +
                ["NsyncVerif.Futex." + t for t in ["C12_conservation", "C12_takes_le_posts", "C12_success_le_posts", "C12_word_fits",
                 "C12_success_needs_post", "C12_no_lost_post", "C12_post_enables", "C12_post_kept_on_timeout", "C12_future_wait_returns",
                 "C12_future_timed_wait_returns", "C12_wait_rechecks", "C12_sleep_only_if_zero", "C12_timeout_real",
                 "C12_no_deadline_never_times_out", "C12_faults_harmless", "C12_premature_timeout_rechecks", "C12_refines", "C12_refines_run"]],
    "layers": ["futex"],
    "binary": "vfh_futex",
    "harness_args": ["futexfault=250"],
    "oracles": {"early-timeout", "stuck", "panic", "crash", "steplimit"},
    "plan": {"quick": [("futex", 200, 10)], "thorough": [("futex", 2000, 24)]},
    "level_text": "Kernel-checked theorems over the Futex model (nsync_semaphore_futex.c statement by statement over a modelled kernel futex: atomic compare-and-sleep, wake-at-most-one, spurious 0 / EINTR / EAGAIN / premature ETIMEDOUT at any point; one waiter, any number of posters): word = posts - takes, success needs a post, no lost post, a post enables the waiter within 5 own steps, ETIMEDOUT only at/after the deadline, refinement to a counting semaphore. Tied to the code by lockstep replay: the real nsync_semaphore_futex.c runs under the harness with syscall() redirected to the modelled futex with fault injection.",
    "level_note": "Kernel futex contract is an assumption (stated in Model/Futex.lean). Single waiter per semaphore (nsync's usage). 'Eventually returns' is now a theorem about all fair infinite executions of the model (Props/C12Fair: C12_fair_termination — a P for which a post is pending returns, spurious wake-ups / EINTRs / premature timeouts and new arrivals going on for ever notwithstanding; a P with deadline returns once the clock passes the deadline provided spurious wake-ups are finite; V returns when posts are bounded), under weak fairness of the threads and KernelFair (a sleeper that was the target of a FUTEX_WAKE, or whose timeout has expired, eventually returns from the system call); each hypothesis is shown necessary by an explicit execution (V's CAS loop is lock-free, not wait-free: C12_fair_needs_bounded_posts). Pre-epoch deadlines are C15's subject.",
    "trusted_extra": ["futex(2) contract: FUTEX_WAIT compares and sleeps atomically; FUTEX_WAKE(1) wakes at most one sleeper of that word"],
}

PROPS["C18"] = {
    "imports": ["NsyncVerif.Props.C18", "NsyncVerif.Props.C15Arith"],
    "theorems": ["NsyncVerif.Time." + t for t in ["C18_add", "C18_add_exact", "C18_sub", "C18_sub_exact", "C18_cmp", "C18_toNs_injective",
                 "C18_cmp_total_order", "C18_cmp_consistent_with_sub", "C18_roundtrip", "C18_roundtrip'", "C18_ms", "C18_us",
                 "C18_ms_us_no_wrap", "C18_s_ns", "C18_s_ns_any", "C18_bounds", "C18_consts"]],
    "layers": ["time"], "engine": "pure-differential",
    "pure": [{"name": "time_gen", "dir": "time", "flavours": ["", "_cpp"], "layer": "time"}],
    "oracles": {"mismatch"},
    "level_text": "Kernel-checked theorems over the Time model (time_rep.c / time_rep_timespec.cc / time_internal.c statement by statement with 64-bit two's-complement and 32-bit unsigned machine arithmetic made explicit): add/sub exact and normalized under no-overflow, cmp is the integer order on sec*1e9+nsec and a total order consistent with sub, (a+b)-b = a, ms/us/s_ns exact for every argument with no intermediate wrap, zero <= t <= no_deadline. Tied to the code by a differential run of the real C and C++11 objects against the model on the property's boundary grid plus random values.",
    "level_note": "Signed overflow is UB in C: modelled as wrap and excluded by explicit hypotheses (the generator emits no UB cases). time_t/long 64-bit (the two default builds). The tie is sampled (grid + random), not a translation.",
}

PROPS["C16"] = {
    "imports": ["NsyncVerif.Props.C16Buffer", "NsyncVerif.Props.C16Observer", "NsyncVerif.Props.C01", "NsyncVerif.Props.C16CvObserver", "NsyncVerif.Props.C16Callback"],
    "theorems": ["NsyncVerif.Emit." + t for t in ["C16_buffer", "C16_cstr_unique", "C16_mu_debug_state", "C16_cv_debug_state"]] +
                ["NsyncVerif.MuC." + t for t in ["C16_no_callback_under_spinlock", "C16_spinlock_regions_callback_free", "C16_spinlock_bit_is_owner"]] +
                ["NsyncVerif.Props.C16Observer.C16_mu_observer", "NsyncVerif.Props.C16Observer.C16_shares_untouched", "NsyncVerif.Props.C16Observer.spinOnly_spec"] +
                ["NsyncVerif.Props.C01.C01_exclusion", "NsyncVerif.Props.C01.C01_word_agrees"] +
                ["NsyncVerif.CvFix." + t for t in ["C16_cv_observer", "C16_cv_observer_holds_word", "C16_cv_no_lost_wake", "C16_cv_observer_release_exact", "C16_cv_observer_progress",
                 "C16_cv_observer_bounded_hold", "C16_cv_observer_first_load", "C16_cv_observer_never_sleeps", "C16_cv_observer_record_access", "C16_cv_stale_release_rejected"]],
    "layers": ["mux", "cv"],
    "pure": [{"name": "emit_gen", "dir": "emit", "flavours": [""], "layer": "emit"}],
    "oracles": {"mismatch", "debug-buffer", "exclusion", "exclusion-ann", "panic", "stuck", "crash", "steplimit", "lock-missed", "muwait-missed"},
    "plan": {"quick": [("debug", 150, 8), ("debug_cond", 80, 8), ("muc", 60, 6)], "thorough": [("debug", 1500, 16), ("debug_cond", 800, 16), ("muc", 600, 12)]},
    "family_layers": {"debug_cond": ["mux"], "muc": ["muc", "mux"]},
    "extra_corpus": ["C01"],
    "level_text": "Buffer half: kernel-checked theorem C16_buffer over the Emit model (emit_init/emit_c/emit_print of debug.c) for every n (incl. 0 and negative) and every NUL-free character stream: writes only inside buf[0..n-1], NUL-terminated for n>=1, ends in '...' when truncated and n>=4, untruncated output is exact; tied by a differential run of the real debug.c (canaries around the buffer, all n in -1..80, states with 0..3 queued waiters). Observer half (mutex): in the MuX protocol a debug-state call is an `observe` call whose only admitted writes toggle MU_SPINLOCK and nothing else; C16_mu_observer proves that a step of an observing thread changes no owner, no client-visible holder, no lock bit and none of the six hint bits (the wake-up bookkeeping), for every reachable state and interleaving, and C01's exclusion theorem quantifies over programs containing observers; tied by lockstep replay of debug-family scenarios (the acceptor rejects any other write by a debug caller — this is how F1 was found) plus exclusion/progress oracles. Observer half (condition variable): the CvFix model contains the debug callers (load; for the *_and_waiters / debugger variants the spinlock loop, the walk over the queue with its loads of `waiting` and `remove_count`, the release store); a step of a thread inside a debug call changes nothing of the cv state but the spinlock bit, the release store writes exactly the word the test-and-set returned, which equals the current word minus the spinlock bit (this uses 'every change of the cv word happens under the spinlock'), so the queue invariant and the no-lost-wake-up theorem of C04 hold in every reachable state of the model WITH observers (C16_cv_observer, C16_cv_observer_release_exact, C16_cv_no_lost_wake); an observer holds the spinlock for a number of own steps bounded by twice the queue length, the non-blocking variants never wait for it, and no observer ever performs a semaphore operation (C16_cv_observer_progress); the records it reads are queued with their owners inside their waits (C16_cv_observer_record_access); a stale release word is rejected (C16_cv_stale_release_rejected). Tied by lockstep replay of the debug family through the CvFix acceptor. 'Never deadlocks' with nsync_mu_wait in play (Props/C16Callback over MuC): the only lock a debug call ever waits for is the queue spinlock, and no client condition is ever evaluated by a thread that owns it (C16_no_callback_under_spinlock, C16_spinlock_regions_callback_free, C16_spinlock_bit_is_owner) — so a debug call made from inside a condition finds it free or held by a thread in a callback-free region; family debug_cond makes exactly that call.",
    "level_note": "Observer half: 'never loses a wake-up / never deadlocks' is proved as 'touches nothing but the spinlock bit' (mutex); the liveness consequence (other threads' progress is unaffected) relies on C02's invariants, which are stated for programs without debug calls — the spinlock is released after finitely many own steps (no loop between the two CASes except the printing). emit_print's varargs formatting is modelled for %s and %i only (all that debug.c uses).",
}

PROPS["C17"] = {
    "imports": ["NsyncVerif.Props.C17"],
    "theorems": ["Dll." + t for t in ["C17_remove", "C17_remove_ring", "C17_splice", "C17_splice_rot", "C17_splice_list", "C17_make_first",
                 "C17_make_first_singleton", "C17_make_first_null", "C17_make_last", "C17_make_last_singleton", "C17_make_last_null",
                 "C17_traversals", "C17_step", "C17_sequences", "C17_sequences_from_empty", "C17_sequences_observe", "C17_no_null_deref"]],
    "layers": ["dll"], "engine": "pure-differential",
    "pure": [{"name": "dll_gen", "dir": "dll", "flavours": ["_c", "_cpp"], "build_args": {"_c": "c", "_cpp": "c++"}, "layer": "dll"}],
    "oracles": {"mismatch"},
    "level_text": "Kernel-checked theorems over the Dll model (dll.c statement by statement on a heap of next/prev functions; unbounded lists, elements and operation sequences): remove / splice / make_first / make_last implement erase / insertion on the abstract sequences with frame conditions, traversals enumerate the sequence forwards and backwards, a removed element is a self-linked singleton, emptiness is exact, no NULL dereference under the contract, and by induction over the operation list the concrete heap represents the abstract state after every prefix (C17_sequences). Tied to the code by a differential run of the real dll.c (C and C++ builds): exhaustive sequences to a length bound plus random longer ones.",
    "level_note": "Contract hypotheses: inserted element is a ring disjoint from the list; removed element is in the list; splice arguments in different rings (what nsync's callers guarantee). Tie is the differential run (exhaustive to the stated bound + random), not a translation.",
}


PROPS["C15"] = {
    "imports": ["NsyncVerif.Props.C15", "NsyncVerif.Props.C12"],
    "theorems": ["NsyncVerif.Props.C15." + t for t in ["C15_futex_args_accepted", "C15_clamp_still_expired", "C15_timespec_faithful",
                 "C15_null_iff_no_deadline", "C15_classify_expired", "C15_future_not_prompt", "C15_wait_n_short_circuit"]] +
                ["NsyncVerif.Time." + t for t in ["C15_cmp_zero_classifies", "C15_neg_sec_is_past", "C15_noDeadline_max", "C15_noDeadline_eq_iff"]] +
                ["NsyncVerif.Futex." + t for t in ["C12_timeout_real", "C12_post_kept_on_timeout", "C12_future_timed_wait_returns"]],
    "layers": ["deadline"], "engine": "realplat",
    "realplat": True,
    "family_layers": {"timed_contended": ["cv", "muc", "mux"], "cancel_only": ["cv", "muc", "mux"], "waitn_rep": ["waitn", "cv", "mux"], "waitn": ["waitn", "cv", "mux"]},
    "plan": {"quick": [("timed_contended", 120, 10), ("waitn_rep", 40, 6), ("waitn", 100, 8)], "thorough": [("timed_contended", 1500, 20), ("waitn_rep", 400, 12), ("waitn", 1000, 16)]},
    "harness_args": ["checkplain=1"],
    "oracles": {"deadline", "stuck", "steplimit", "early-timeout", "bad-result", "muwait-result", "crash", "panic", "waitn-ready", "waitn-missed"},
    "level_text": "Kernel-checked theorems over the Deadline/Time/Futex models: for every deadline value the timespec handed to the kernel satisfies the futex contract (no EINVAL, so the ASSERT cannot fire), a pre-epoch deadline is clamped to an instant that is still expired and the library's re-check then reports ETIMEDOUT, no_deadline (and only it) means no timeout, classification expired/future agrees with integer time, nsync_wait_n short-circuits exactly the deadlines at or before zero; no early timeout and an expired deadline needs no wake-up for the semaphore (C12 theorems). Tied to the code by the real-platform probe: every timed entry point x the property's boundary set of deadlines x {C build, C++ build}, one child process per case on the real futex/kernel; the observed outcome class (prompt timeout / timeout at deadline / event / crash / hang) must equal the model's.",
    "level_note": "The futex(2) timeout contract is an assumption, re-validated against the running kernel by the probe on every run. The probe uses wall-clock time: generous margins (prompt < 1 s, future deadline = now + 300 ms, hang = 4 s). Entry-point control flow above the semaphore is tied by the probe, by this check's own contended tier under the deterministic scheduler (family timed_contended: deadlines expiring while another thread holds the mutex and the condition flips back, zero / pre-epoch / past / future values; lockstep through CvFix and MuC, oracles stuck / steplimit / early-timeout) and by the lockstep layers of C04/C05/C10/C11, not re-proved here.",
}

PROPS["C03"] = {
    "imports": ["NsyncVerif.Props.C03", "NsyncVerif.Proofs.VC", "NsyncVerif.Props.C03Once", "NsyncVerif.Props.C03Counter", "NsyncVerif.Props.C03Signal", "NsyncVerif.Props.C03Note", "NsyncVerif.Props.C03Transfer"],
    "theorems": ["NsyncVerif.Props.C03." + t for t in ["C03_release_chain", "C03_mutex_handoff", "C03_release_recorded", "C03_released_monotone",
                 "C03_unlock_happens_before_lock", "C03_orders_required"]] +
                ["NsyncVerif.VC." + t for t in ["vc_mono_run", "acq_sees_relc", "rel_records", "release_chain_run", "message_passing",
                 "relaxed_load_no_edge", "relaxed_store_breaks"]] +
                ["Once." + t for t in ["C03_once_invariant", "C03_once", "C03_once_state", "C03_once_needs_acquire"]] +
                ["Counter." + t for t in ["C03_counter_machine", "C03_counter_adds_chain", "C03_counter", "C03_counter_carrier", "C03_counter_no_other_edges", "C03_counter_value", "C03_counter_add"]] +
                ["NsyncVerif.CvFix." + t for t in ["C03_signal", "C03_signal_waitn", "C03_signal_before_call", "C03_signal_wait", "C03_signal_dequeue", "C03_signal_invariant",
                 "C03_cv_spinlock", "C03_signal_machine", "C03_signal_needs_release_store", "C03_signal_needs_acquire_load", "C03_signal_waitn_needs_acquire_load",
                 "C03_signal_waitn_needs_acquire_loop", "C03_signal_transfer_partial", "C03_signal_transfer_released"]] +
                ["Note." + t for t in ["C03_note_machine", "C03_note_orders", "C03_note_no_other_edges", "C03_note_invariant", "C03_note_edge", "C03_note_store_once",
                 "C03_note_single_store", "C03_note_the_notifier", "C03_note_origin", "C03_note_ancestor", "C03_note_lazy_expiry", "C03_note_born",
                 "C03_note_is_notified", "C03_note_wait", "C03_note_carrier", "C03_note_trace", "C03_note_any_observer",
                 "ExampleVC.C03_note_needs_release_store", "ExampleVC.C03_note_needs_acquire_load", "ExampleVC.C03_note_born_needs_release_store"]] +
                ["NsyncVerif.CvMu." + t for t in ["C03_signal_transfer", "C03_signal_transfer_full_composed", "C03_signal_transfer_loop_exit", "C03_signal_transfer_published",
                 "C03_signal_transfer_wake", "C03_transfer_orders", "C03_transfer_machine", "C03_transfer_invariant",
                 "C03_transfer_needs_acquire_cas", "C03_transfer_needs_release_store", "C03_transfer_needs_release_cas", "C03_transfer_needs_acquire_load"]],
    "layers": ["vc", "mux", "once", "counter", "cv", "cvmu"],
    "tie": ["NsyncVerif.Proofs.TieOrders", "NsyncVerif.Proofs.TieSites", "NsyncVerif.Proofs.TieSignal", "NsyncVerif.Proofs.TieNote", "NsyncVerif.Proofs.TieTransfer"],
    "harness_args": ["plain=1"],     # log nsync's own plain accesses to registered objects: raced-checked by the vc layer
    "oracles": {"vc"},
    "plan": {"quick": [("core", 80, 6), ("cv", 50, 6), ("muwait", 50, 6), ("once", 60, 6), ("ctr", 60, 6)],
             "thorough": [("core", 800, 12), ("cv", 500, 12), ("muwait", 500, 12), ("once", 600, 12), ("ctr", 600, 12), ("mixed", 500, 12)]},
    "level_text": "Kernel-checked theorems: (1) over the MuX protocol with declared orders and ghost vector clocks — the release clock of the mutex word always covers every past release point (C03_release_chain), so whatever a thread did before giving up its share happens before the continuation of every thread that later comes to own a share, for all interleavings and any number of threads, using only acquire/release strength and the C++20 release-sequence rule (C03_unlock_happens_before_lock); the acceptor requires acquire on every share/spinlock-taking write, release on every share/spinlock-releasing write and release on the plain stores (C03_orders_required); (2) over the generic vector-clock machine — the message-passing theorem (release write, then only RMWs / dominated release stores, then acquire read ⇒ happens-before); (3) over the PRODUCT of the Once acceptor with the clock machine — the end of the once-function happens before every nsync_run_once* return, for all accepted traces (C03_once), with the negative control that a relaxed final load carries no edge; (4) over the product of the Counter acceptor with the clock machine — the pre-CAS clock of the zeroing add and of every add before it is below the clock of every nsync_counter_wait that returns 0; the carrier is the waiter's own acquire load of the value on every path, never the semaphore or the counter mutex (C03_counter, C03_counter_carrier, C03_counter_no_other_edges). Tied to the code by lockstep: every atomic operation of every explored execution goes through the vc layer (which also checks the five hand-offs of the statement on the real executions: data-race detector for mutex-protected client data AND for nsync's own plain fields (compiler-instrumented accesses to queue links, waiter records, note and counter fields), once end→return, note set→observation, counter zero→wait return, signal→woken return) and the mutex word's operations through MuX's order checks.",
    "level_note": "The mutex, once, counter and cv-signal edges are theorems (products of the layer acceptors with the clock machine; the signal edge over the CvFix model for nsync_cv_wait* and nsync_wait_n, its site orders tied to the regenerated site table by Tie.signal_sites_tie). The note edge is a product theorem over the Note model as well (every observer of a note's flag — nsync_note_is_notified, nsync_note_wait on the fast and on the woken path, and any later acquire load incl. the cancellable waits' — is ordered after THE one store of that flag and after the call that led to it: explicit notify of the note or an ancestor, the lazy-expiry poller, or the creator of a born-notified child; the flag is stored at most once; site orders tied by Tie.note_sites_tie). Scope facts made explicit by witnesses: a redundant nsync_note_notify that finds the flag set, and a note with a zero deadline ('notified' with the flag clear), are the source of no edge. Waiters that a signal TRANSFERS to the mutex queue are covered by a composition theorem over the joint acceptor CvFix × MuX × clocks (Props/C03Transfer: C03_signal_transfer — the waker's clock at its call is covered by the waiter's clock at the loop exit and at the return; chain: cv.c/3 release CAS → release sequence on the mutex word (every later spinlock acquisition is an acquire RMW; the plain release stores of mu_wait.c are by the spinlock holder) → the unlocker's release store of `waiting` → the waiter's acquire load), with the orders tied by Tie.transfer_sites_tie and the joint acceptor's five consistency checks K1–K5 replayed on every execution (layer cvmu). One fact is taken from the log rather than derived: that the thread which wakes a transferred record acquired the mutex word after the waker's cv.c/3 (check K5). Orders of sites no explored schedule reaches are not covered by lockstep. SC interleavings only, as the property specifies.",
}

MUQ = "NsyncVerif.MuQ."
PROPS["C02"] = {
    "imports": ["NsyncVerif.Props.C02", "NsyncVerif.Props.C02Progress", "NsyncVerif.Props.C02Fair", "NsyncVerif.Props.C06"],
    "theorems": ["NsyncVerif.MuC." + t for t in ["C06_no_stuck_state", "C06_responsible", "C06_responsible_pending", "C06_lock_slow_record"]] +   # the same on a mutex also used with nsync_mu_wait / nsync_mu_unlock_without_wakeup
                [MUQ + t for t in ["C02_try_wait_free", "C02_inv_spin", "C02_inv_spin_queue", "C02_inv_lock", "C02_inv_queue", "C02_inv_hint",
                 "C02_responsible", "C02_woken_not_lost", "C02_no_stuck_state", "C02_solo_progress_partial",
                 "C02_solo_progress", "C02_solo_acquire", "C02_solo_release", "C02_thread_enabled", "C02_awake_responsible", "C02_leads_to_wake",
                 "C02_can_always_complete", "C02_stage_monotone",
                 "C02_fair_termination", "C02_fair_quiescence", "C02_fair_return", "C02_fair_wake", "C02_fair_needs_release", "C02_fair_needs_rc", "C02_fair_needs_arrivals"]],
    "layers": ["muq", "mux"],
    "tie": ["NsyncVerif.Proofs.TieConsts"],
    "oracles": {"stuck", "steplimit", "try-blocked", "panic", "crash", "lock-missed"},
    "family_layers": {"nw_release": ["muc", "mux"]},
    "plan": {"quick": [("core", 200, 8), ("core@ps", 200, 10), ("starve@ps", 60, 12), ("muwait", 60, 6), ("cv", 60, 6), ("cv_rsignal", 40, 6), ("late_looker", 40, 6), ("nw_release", 100, 8)],
             "thorough": [("core", 2000, 16), ("core@ps", 2000, 16), ("late_looker", 400, 12), ("nw_release", 1000, 16), ("starve@ps", 600, 20), ("muwait", 600, 12), ("cv", 600, 12), ("cv_rsignal", 400, 12), ("mixed", 600, 12)]},
    "level_text": "Kernel-checked theorems over the MuQ model (mu.c lock/rlock/trylock/rtrylock/unlock/runlock/lock_slow/unlock_slow statement by statement: word with interpreted hint bits, waiter queue, per-waiter waiting flag and semaphore, 31 program points, one step per atomic operation; any number of threads; counting and binary semaphores): try-locks are wait-free (at most 3 atomic operations, never a semaphore wait); inductive invariants for spinlock, lock bits, queue and hint bits; every queued sleeper has somebody responsible for waking it (a share holder, a woken thread in flight, or an unlocker mid-scan: C02_responsible); a woken thread's post is never lost (C02_woken_not_lost); and there is NO reachable state in which every thread is idle-holding-nothing or asleep unless nobody is asleep (C02_no_stuck_state); obstruction-freedom with explicit bounds: a thread running alone with the spinlock free completes its acquisition attempt (returns or goes to sleep) within 14 + 3·M own steps and its release within a bound linear in the queue length (C02_solo_progress, C02_solo_acquire, C02_solo_release); every awake thread inside a call has an enabled step (C02_thread_enabled); the leads-to argument in existential-schedule form with an explicit lexicographic ranking: from every reachable state with t asleep there is a finite schedule without barging and without new acquisitions after which t's semaphore has been posted, and one after which every thread is idle holding nothing (C02_leads_to_wake, C02_can_always_complete, C02_stage_monotone); and FAIR TERMINATION itself: in every infinite execution of the model that is weakly fair, in which every holder eventually calls unlock, with finitely many arrivals and finitely many failed CASes on the foreign remove_count word, every call eventually returns — indeed the whole system eventually becomes quiescent with nobody holding anything (C02_fair_termination, C02_fair_quiescence, C02_fair_return, C02_fair_wake), and each of the three side hypotheses is necessary (explicit fair counter-executions C02_fair_needs_release, C02_fair_needs_rc, C02_fair_needs_arrivals). Tied to the code by lockstep replay of harness executions of the real mu.c through the MuQ acceptor (every event: op kind, order, location, expected/new/observed values) plus the global-progress oracle on the real executions, which also runs the full alphabet (mu_wait, cv, wait_n). On a mutex that is also used with nsync_mu_wait / nsync_mu_unlock_without_wakeup the same no-stuck-state and responsibility statements hold over the MuC model (C06_no_stuck_state, C06_responsible, C06_responsible_pending, C06_lock_slow_record: nobody sleeps inside nsync_mu_lock / rlock in a quiescent state); family nw_release and the quiescence oracle lock-missed exercise it, family late_looker (scheduler strategy 6) the designated-waker rule under MU_LONG_WAIT.",
    "level_note": "Scope of the theorems is the property's own quantifier (core operations on one mutex; a mutex used with mu_wait/cv/wait_n/debug is out of MuQ's scope and covered by lockstep through MuX plus the progress oracle only). 'Eventually returns' is a theorem about the model's infinite executions (C02_fair_termination) under weak fairness + the property's own hypothesis (holders release) + two side hypotheses that the formalisation shows to be necessary: finitely many failed CASes on the foreign remove_count word (the acceptor admits such a failure whenever the log reports one), and finite arrivals (a thread can be overtaken between its load and its enqueue CAS by lock/unlock pairs on the fast paths for ever; nsync bounds barging once a waiter has escalated — C14 — but the statement is about arbitrary arrivals). Waiter-pool allocation is an allocator contract.",
}
PROPS["C14"] = {
    "imports": ["NsyncVerif.Props.C14", "NsyncVerif.Props.C14Cv"],
    "theorems": [MUQ + t for t in ["C14_escalates", "C14_sets_bit", "C14_requeue_front", "C14_blocks_fresh", "C14_cleared_only_by_long_waiter", "C14_woken_ignores_hints"]] +
                ["NsyncVerif.CvFix." + t for t in ["C14_cv_relock_slow_only_transferred", "C14_cv_untransferred_uses_plain_lock", "C14_cv_reacquire_paths_exclusive",
                 "C14_cv_xferd_is_transfer", "C14_cv_transferred_was_woken_by_waker"]],
    "layers": ["muq", "mux"],
    "tie": ["NsyncVerif.Proofs.TieConsts"],
    "oracles": {"stuck", "steplimit", "panic", "starved"},
    "plan": {"quick": [("core", 150, 8), ("starve", 40, 10), ("starve_cv", 40, 10), ("starve_mix", 20, 8), ("late_looker", 30, 6)], "thorough": [("core", 1500, 16), ("late_looker", 300, 12), ("starve", 400, 20), ("starve_cv", 400, 20), ("starve_mix", 200, 12)]},
    "family_layers": {"starve_cv": ["cv", "mux"], "starve_mix": ["muc", "mux"]},
    "level_text": "Kernel-checked theorems over the MuQ model: a thread inside lock_slow has its long-wait flag set exactly from its 30th wake-up on (C14_escalates); it then sets MU_LONG_WAIT in every enqueue and re-queues at the FRONT (C14_sets_bit, C14_requeue_front); while the bit (or, for fresh readers, MU_WRITER_WAITING) is set no step of a thread that has not itself waited acquires — fast paths, try-locks and lock_slow with clear = 0 (C14_blocks_fresh); the bit is cleared only by the acquiring CAS of a thread that itself escalated (C14_cleared_only_by_long_waiter); a woken thread is stopped only by real lock conflicts (C14_woken_ignores_hints). A directed corpus schedule drives the real library through 30 wake-ups of a victim and checks the same steps in lockstep; the harness measures the number of sleeps of a victim inside one lock call under adversarial barging. Across condition variables (Props/C14Cv over CvFix): the end of a cv wait calls nsync_mu_lock_slow_ with MU_DESIG_WAKER — the only way to ignore MU_LONG_WAIT without having queued on the mutex oneself — exactly for waiters that wake_waiters moved to the mutex queue and an unlocker woke; every other return (timeout, cancellation, direct wake-up) re-acquires as a fresh locker (C14_cv_relock_slow_only_transferred, C14_cv_untransferred_uses_plain_lock, C14_cv_reacquire_paths_exclusive, C14_cv_xferd_is_transfer, C14_cv_transferred_was_woken_by_waker); family starve_cv under the adversarial strategies.",
    "level_note": "The prose bound ('sent back to sleep only a bounded number of times') is proved as the mechanism above; with several escalated waiters one of them may clear the bit while another still sleeps (it re-raises it at its next enqueue), so the numeric bound is measured by the harness oracle (sleeps in one call <= 30 + number of fibers + margin), not proved in general.",
}
PROPS["C10"] = {
    "imports": ["NsyncVerif.Props.C10"],
    "theorems": ["Counter." + t for t in ["C10_linearizable", "C10_cas_atomic", "C10_add_returns", "C10_value_held", "C10_value_held_add", "C10_value_held_wait",
                 "C10_wait_zero", "C10_wait_nonzero", "C10_release_all", "C10_release_all_unlock", "C10_released_posted", "C10_no_lost_wakeup",
                 "C10_no_block_after_zero", "C10_wait_at_zero", "C10_record_lifetime", "C10_record_lifetime_ret"]],
    "layers": ["counter", "mux", "vc"],
    "oracles": {"early-timeout", "stuck", "panic", "crash", "counter-value", "ctr-linearizable", "ctr-wait-zero", "waitn-ready", "vc"},
    "plan": {"quick": [("ctr", 200, 8), ("ctr_big", 60, 8)], "thorough": [("ctr", 2000, 16), ("ctr_big", 600, 16)]},
    "family_layers": {"ctr_big": ["waitn", "mux", "vc"]},
    "level_text": "Kernel-checked theorems over the Counter model (counter.c and the nsync_wait_n path of nsync_counter_wait statement by statement, counter mutex abstract, any number of threads and deltas): the value history is exactly the prefix sums of the deltas whose CAS succeeded and every add returns the value its own CAS produced (linearizable); value/add(0)/wait only report values the counter held; wait returns 0 only if 0 was held and non-zero only with the deadline expired; when the value is 0 and the lock is free the waiter queue is empty and every record that was queued has waiting cleared and its semaphore posted; a sleeper is never lost; after zero (with a wait registered) no wait reaches the semaphore. Tied to the code by lockstep replay of harness executions of the real counter.c/wait.c through the Counter acceptor.",
    "level_note": "counter_mu is an abstract lock in this layer (justified by C01, whose acceptor replays the same logs). uint32 wrap-around modelled; the library's ASSERTs (no decrement below zero, no increment from zero after a wait) are the API contract. Waits through nsync_wait_n with several objects are C11's subject.",
}
NOT_YET.update({
    "C04": "Cv layer (cv.c model, theorems, acceptor) under construction",
    "C05": "depends on the Cv layer and a mu_wait model; under construction",
    "C06": "needs a model of conditional critical sections (mu_wait.c, same_condition rings) on top of MuQ; not built yet",
    "C08": "Note layer under construction",
    "C09": "Note layer under construction",
    "C11": "WaitN layer not built yet",
    "C13": "mutex half proved (Props/C13Mu.lean, checked inside C02's lockstep); cv / wait_n half depends on the Cv and WaitN layers; not claimed until both halves have a check",
    "C19": "counter half proved (Props/C19Counter.lean); note half depends on the Note layer",
})

CV = "NsyncVerif.CvFix."
PROPS["C04"] = {
    "imports": ["NsyncVerif.Props.C04Fix", "NsyncVerif.Props.C04WaitN"],
    "theorems": ["WaitN." + t for t in ["C04_waitn_atomic", "C04_waitn_release_after_enqueue", "C04_waitn_enqueued_at_release", "C04_waitn_enqueued_while_unlocked"]] +
                [CV + t for t in ["C04_queue_inv", "C04_spinlock_excl", "C04_wait_atomic", "C04_unlink_once", "C04_unlink_once_full_true", "C04_unlinker_by_status",
                 "C04_remove_count_handshake", "C04_outcome_partial", "C04_exitUnl_is_unl", "C04_outcome", "C04_waker_unlinked_is_ready", "C04_dequeue_waits_for_waker",
                 "C04_signal", "C04_broadcast", "C04_broadcast_unlinks_all", "C04_no_lost_wake", "C04_f3_schedule_fixed", "C04_f3_old_behaviour_rejected"]],
    "layers": ["cv", "mux"],
    "oracles": {"cv-woken-asleep", "swallowed-wakeup", "dead-object", "stuck", "steplimit", "early-timeout", "bad-cancel", "bad-result", "panic", "crash"},
    "plan": {"quick": [("cv", 120, 8), ("cv_raw", 60, 8), ("cv_rsignal", 60, 8), ("waitn_cv", 80, 8), ("waitn_atomic", 80, 8), ("cv_rwr", 60, 6), ("cv@ps", 80, 8), ("waitn_cv@ps", 60, 8), ("muc_cv", 80, 8)],
             "thorough": [("cv", 1200, 16), ("cv_raw", 600, 16), ("cv_rsignal", 600, 16), ("waitn_cv", 800, 16), ("waitn_atomic", 800, 16), ("cv_rwr", 600, 12), ("cv@ps", 800, 16), ("waitn_cv@ps", 600, 16), ("muc_cv", 800, 16)]},
    "harness_args": ["checkplain=1"],
    "family_layers": {"waitn_atomic": ["waitn", "cv", "mux"], "muc_cv": ["cv", "muc", "mux"]},
    "level_text": "Kernel-checked theorems over the CvFix model (cv.c — with the repair of defect F3 — and sem_wait.c statement by statement: cv word, queue, pooled waiter records with remove_count and bare nsync_waiter_s records of nsync_wait_n, private to-wake lists, transfer to the mutex queue; any number of threads; both semaphore flavours): queue/non-empty-bit invariant, spinlock exclusion, enqueue-before-release (wait is atomic w.r.t. wakers), signal unlinks the first waiter and, if it is a reader, every reader plus at most one other, broadcast unlinks every waiter enqueued before its first load, an unlinked record is woken (flag cleared and semaphore posted) or its waker is still in flight (no lost wake-up), every wait instance is unlinked at most once, by a waker xor by itself — for ALL record kinds (C04_unlink_once) —, a cv wait returns non-zero only if it unlinked itself, and for nsync_wait_n cv_dequeue reports 'still enqueued' exactly when the record was unlinked by its owner (a waker-unlinked record is reported as ready: C04_outcome). Tied to the code by lockstep replay of the cv / cv_raw / cv_rsignal / waitn_cv families (incl. cancellable waits) through the CvFix acceptor, with the swallowed-wake-up and dead-object oracles on the implementation side. The nsync_wait_n half of 'releasing the mutex and starting to wait is atomic' is a theorem over the WaitN model (Props/C04WaitN): the release of the supplied mutex is accepted only after every object has been through its enqueue, and from that step on every cv record of the call is on pcv->waiters or has already been unlinked by a signaller (C04_waitn_atomic, C04_waitn_release_after_enqueue, C04_waitn_enqueued_at_release, C04_waitn_enqueued_while_unlocked); exercised by family waitn_atomic (Mesa loop around nsync_wait_n without deadline, waker sets the state and broadcasts under the mutex).",
    "level_note": "On the pinned tree C04_unlink_once / C04_outcome were false for nsync_wait_n records (defect F3, now fixed in /repo: the old Cv model with the refutation is kept in the library as Props/C04.lean, the F3 schedule is a corpus regression). Transferred waiters are handed to the mutex queue (C02). The mutex is abstract in this layer. Fair termination is a paper step.",
}
PROPS["C08"] = {
    "imports": ["NsyncVerif.Props.C08", "NsyncVerif.Props.C08Release"],
    "theorems": ["Note." + t for t in ["C08_flag_monotone", "C08_flag_monotone_run", "C08_notified_monotone", "C08_monotone", "C08_observed_notified", "C08_anc_ever",
                 "C08_sound", "C08_notify_post", "C08_expiry_min", "C08_expiry_min_ret", "C08_creation_path", "C08_creation_ghosts", "C08_expiry_min_full_holds",
                 "C08_expiry_min_old_code_witness", "C08_complete", "C08_delivery_in_progress", "C08_complete_old_code_witness", "f4_repaired", "C08_complete_partial",
                 "C08_stack_notified", "C08_unaffected_partial", "C08_ancestors_unaffected",
                 "C08_waiters_released", "C08_no_lost_wakeup", "C08_notified_waiters_in_progress", "C08_waiting_record", "C08_complete_released", "C08_complete_full_holds",
                 "C08_child_iff_parent", "C08_children_nodup", "C08_unaffected_full_holds", "C08_unaffected", "C08_siblings_unaffected", "C08_parent_and_siblings_unaffected"]],
    "layers": ["note", "mux"],
    "extra_corpus": ["C09"],
    "oracles": {"steplimit", "stuck", "expiry-min", "notify-post", "note-wait", "early-timeout", "panic", "crash", "dead-object"},
    "plan": {"quick": [("note", 150, 8), ("note_f4", 30, 8), ("note_f4b", 20, 8), ("cancel_only", 100, 10), ("cancel_children", 60, 10)],
             "thorough": [("note", 1500, 16), ("note_f4", 300, 16), ("note_f4b", 200, 16), ("cancel_only", 1000, 20), ("cancel_children", 600, 20)]},
    "family_layers": {"cancel_only": ["semwait", "cv", "muc", "mux"], "cancel_children": ["semwait", "mux"]},
    "harness_args": ["checkplain=1"],
    "level_text": "Kernel-checked theorems over the Note model (note.c and the wait path of nsync_note_wait statement by statement on a forest with parent/children/disconnecting/waiters, note mutexes abstract; unbounded notes, threads, depth, steps): the flag and the API-level 'notified' are one-way, COMPLETENESS (C08_complete: once a note is notified and no activation on it is in progress, its children list is empty and every descendant is notified; with C08_complete_released: every thread waiting on them has been released), every observer history is monotone, a notified note has a cause (notify called or a deadline passed on itself or an ancestor-at-some-time), notify's post-condition, ancestors are never affected, everything on a notifier's recursion stack is notified, and nsync_note_expiry returns the minimum of the creation deadlines on the creation-time path to the root for EVERY note, born notified or not (C08_expiry_min, C08_expiry_min_ret — for the code as repaired by afe43b7). Tied to the code by lockstep replay including a digest of the REAL note forest after every note API return, which the model must reproduce.",
    "level_note": "Every clause of the statement is now a theorem about the model of the CURRENT note.c. Three things were wrong on the pinned tree and are repaired in /repo: completeness (F4, adoption under an ancestor whose child scan was over — repaired by 0c53433: C08_complete, C08_complete_released, C08_complete_full_holds hold without any hypothesis about adoptions), the expiry clause (F5, notes born notified — afe43b7: C08_expiry_min), and the use-after-free F7 (8a33942, C09's subject). What the old code did is recorded by the …_old_code_witness theorems and by the corpus regressions. The expiry clause is about CREATION-time ancestors (C08_creation_path). 'Ancestors and siblings are unaffected' is proved w.r.t. the CURRENT forest (C08_unaffected_full_holds). 'Released' is the safety form (flag cleared and V performed or owed by an activation in progress); that P then returns is the semaphore's contract (C12). The new field children_adopted is not part of the forest digest the harness logs: a library that forgets to set it is caught by the stuck oracle, not by a REJECT. Monotone clock assumed."
}
PROPS["C09"] = {
    "imports": ["NsyncVerif.Props.C09"],
    "theorems": ["Note." + t for t in ["C09_holds_iff", "C09_lock_order", "C09_no_lock_cycle", "C09_adoption", "C09_adoption_wakes", "C09_adoption_root", "C09_free_leaves_no_child",
                 "C09_no_use_after_free", "C09_parent_not_stale", "C09_linked_or_locked_is_live", "C09_no_use_after_free_partial", "C09_no_use_after_free_old_code_witness",
                 "C09_free_is_exclusive", "C09_no_stuck_state", "C09_wait_has_disconnectors", "C09_disconnecting_count", "C09_no_stuck_state_partial", "C09_no_stuck_state_old_code_witness",
                 "f7_repaired", "f4_not_stuck"]],
    "layers": ["note", "mux"],
    "oracles": {"steplimit", "stuck", "dead-object", "dead-stack", "panic", "crash"},
    "plan": {"quick": [("note", 150, 8), ("note_f4", 30, 8), ("note_f4b", 20, 8), ("note_f7", 30, 8)], "thorough": [("note", 1500, 16), ("note_f4", 300, 16), ("note_f4b", 200, 16), ("note_f7", 300, 16)]},
    "harness_args": ["checkplain=1"],
    "extra_corpus": ["C08"],
    "level_text": "Kernel-checked theorems over the Note model: the lock discipline (a thread waiting for a note's mutex holds only mutexes of notes strictly above it in creation order: C09_lock_order, hence no cycle of lock waits: C09_no_lock_cycle), adoption (when free returns, every non-disconnecting former child has the former parent as parent and is in its children list; nothing is left behind), free is exclusive, and the argument of a call in progress is never a freed note. Tied to the code by lockstep replay with forest digests and the dead-object oracle (every atomic and plain access of the real code is checked against reclaimed notes).",
    "level_note": "All clauses are theorems about the model of the CURRENT note.c: no step of any thread touches a freed note (C09_no_use_after_free — it rests on invariant I1 'a note is unlinked from its parent only by the LAST thread disconnecting it', C09_parent_not_stale), there is no reachable state in which a call is blocked and nobody can move (C09_no_stuck_state — every thread sleeping in WAIT_FOR_NO_CHILDREN has disconnecting children each with a counted thread, or will be woken by an adopter: C09_wait_has_disconnectors, C09_adoption_wakes), `disconnecting` equals the number of threads counted in it (C09_disconnecting_count), lock order parent-before-child without cycles. Two statements were FALSE on the pinned tree (F7: use after free of the parent; F4: a stuck notify / free) and are repaired in /repo (8a33942, 0c53433; a third shape, F7b — the notifier's recursion unlinking a note whose nsync_note_free still held the stale parent — was found by the repair study and is closed by the same rule). The old behaviour is recorded by the …_old_code_witness theorems and the corpus regressions. Client contract: a note is freed once and not used afterwards."
}
PROPS["C19"] = {
    "imports": ["NsyncVerif.Props.C19Note", "NsyncVerif.Props.C19Counter"],
    "theorems": ["Note.C19_note_new_fail", "Note.C19_parent_usable", "Counter.C19_counter_new_fail", "Counter.C19_counter_new_fail_no_access", "Counter.C19_counter_new_ok",
                 "Counter.Driver.C19_driver_new_fail"],
    "layers": ["note", "counter"],
    "oracles": {"steplimit", "crash", "panic", "dead-object", "stuck"},
    "plan": {"quick": [("alloc_fail", 120, 6)], "thorough": [("alloc_fail", 1200, 12)]},
    "level_text": "Kernel-checked theorems over the Note and Counter models: on the malloc-NULL path nsync_note_new / nsync_counter_new return NULL after zero further operations, the state of every existing object — in particular the intended parent — is exactly unchanged (s3 = s), and every continuation therefore runs identically (C19_parent_usable). Tied to the code by lockstep: scenarios that build small note trees and counters with the harness's fail-the-k-th-allocation switch failing each constructor allocation in turn (the forest digest before = after; the acceptors take the NULL branch).",
    "level_note": "Only the constructors' allocations are in scope (the property's quantifier): the waiter pool's unchecked malloc in common.c and nsync_wait_n's unchecked malloc for more than 4 objects are outside C19; scenarios in which the failed allocation is one of those are generated with the failure index restricted to constructor allocations.",
}


WN = "WaitN."
PROPS["C11"] = {
    "imports": ["NsyncVerif.Props.C11", "NsyncVerif.Props.C04Fix"],
    "theorems": [WN + t for t in ["C11_index_ready", "C11_index_ready_first", "C11_timeout", "C11_short_circuit", "C11_cleanup", "C11_cleanup_ret",
                 "C11_mutex_marks", "C11_mutex", "C11_heap_path", "C11_no_oversleep", "C11_cleared_accounted", "C11_no_oversleep_token", "C11_sleep_deadline",
                 "C11_cv_unlinked_by_waker", "inv_of_run", "qinv_of_reachable", "ulife_of_reachable", "dui_of_reachable"]] +
                ["NsyncVerif.CvFix.C04_outcome", "NsyncVerif.CvFix.C04_waker_unlinked_is_ready"],
    "layers": ["waitn", "cv", "mux"],
    "oracles": {"waitn-ready", "waitn-missed", "early-timeout", "dead-object", "dead-stack", "stuck", "steplimit", "panic", "crash", "exclusion", "exclusion-ann"},
    "plan": {"quick": [("waitn", 150, 8), ("waitn_rep", 80, 8), ("waitn_cv", 60, 8), ("waitn_f3", 60, 8), ("waitn_mon", 60, 10)],
             "thorough": [("waitn", 1500, 16), ("waitn_rep", 800, 16), ("waitn_cv", 600, 16), ("waitn_f3", 600, 16), ("waitn_mon", 600, 20)]},
    "extra_corpus": ["C13"],
    "harness_args": ["checkplain=1"],
    "level_text": "Kernel-checked theorems over the WaitN model (wait.c statement by statement together with the enqueue / ready_time / dequeue functions of notes, counters and — as repaired by 3518d42 — condition variables, on-stack and malloc'ed record arrays, any number of callers and wakers): a returned index < count names an object that is ready (note notified or expired, counter zero, cv record unlinked by a waker for this call) and is the FIRST object whose dequeue reported 'no longer enqueued' (C11_index_ready, C11_index_ready_first); count is returned only with the deadline expired and every dequeue reporting 'still enqueued', or on the no-registration fast path with a past deadline (C11_timeout, C11_short_circuit); every registration is removed by its owner before the return and no record is left on any queue or waker's list (C11_cleanup, C11_cleanup_ret); the mutex is released only after registration on all count objects and re-acquired before the return (C11_mutex_marks, C11_mutex); heap bookkeeping balances (C11_heap_path); 'does not keep sleeping after one becomes ready' in safety form (C11_no_oversleep): whenever a caller is at its semaphore wait and an object it is registered on has become ready for it, a token is available (counting and binary flavour), or a waker still owes the V, or a cv signaller is between unlink and clearing `waiting`, or the record is still queued on the ready note / counter whose mutex is held (the notifier is mid-walk), or the P is timed with a deadline that has passed (lazy note expiry) — and every P is issued with the minimum of the call's deadline and the registered notes' expiry times (C11_sleep_deadline). Tied to the code by lockstep replay of the waitn / waitn_rep / waitn_cv / waitn_f3 families through the WaitN and CvFix acceptors, with implementation-side oracles on every return (index against object state, count against the virtual clock and against objects ready at call time, liveness of every record any thread touches).",
    "level_note": "Everything of the statement is a theorem; 'does not keep sleeping' is proved in its safety form (the disjunction above — the liveness reading needs fairness: paper step) and additionally checked as termination of every explored execution (oracle stuck). In disjunct (D) the holder of the object's mutex is not shown to differ from the caller (threads in foreign code are accepted site-independently). malloc failure on the heap path is not handled by wait.c (the model rejects a NULL result; not generated). Sampled correspondence.",
}

PROPS["C13"] = {
    "imports": ["NsyncVerif.Props.C13Mu", "NsyncVerif.Props.C13CvFix", "NsyncVerif.Props.C13WaitN", "NsyncVerif.Props.C13Cancel", "NsyncVerif.Props.PoolContract", "NsyncVerif.Props.C13Note"],
    "theorems": ["Note." + t for t in ["C13_note_wake_loop_holds_lock", "C13_note_locked_notified_has_no_waiters", "C13_note_dequeue_leaves_nothing"]] +
                ["NsyncVerif.MuQ." + t for t in ["C13_release_point", "C13_before_release_point", "C13_release_is_last_needed"]] +
                ["NsyncVerif.CvFix." + t for t in ["C13_record_touch", "C13_record_touch_nw_full_true", "C13_listed_owner_waits", "C13_listed_alive",
                 "C13_owner_returns_clean", "C13_owner_returns_clean_waitn", "C13_idle_not_touched", "C13_late_V_touches_nothing"]] +
                [WN + t for t in ["C13_record_lifetime", "C13_owner_access", "C13_record_lifetime_post", "C13_owner_returns_after", "C13_owner_returns_after_stack"]] +
                ["SemWait." + t for t in ["C13_cancel_record_touch", "C13_cancel_owner_access", "C13_cancel_owner_returns_clean", "C13_cancel_remove_safe"]] +
                ["Pool." + t for t in ["Pool_exclusive", "Pool_exclusive_trace", "Pool_free_list_inv", "Pool_init", "Pool_remove_count_monotone", "Pool_reserved", "Pool_no_leak_partial", "Pool_client_checks"]],
    "layers": ["pool", "muq", "mux"],
    "family_layers": {"refcount_mw": ["pool", "muc", "mux"], "note": ["pool", "note", "mux"], "note_wc": ["pool", "note", "mux"], "cancel_children": ["pool", "semwait", "mux"], "refcount": ["pool", "muq", "mux"], "core": ["pool", "muq", "mux"], "waitn": ["pool", "waitn", "cv", "mux"], "waitn_rep": ["pool", "waitn", "cv", "mux"], "waitn_cv": ["pool", "waitn", "cv", "mux"],
                      "waitn_f3": ["pool", "waitn", "cv", "mux"], "cv": ["pool", "semwait", "cv", "mux"], "muc": ["pool", "semwait", "muc", "mux"], "cancel_only": ["pool", "semwait", "cv", "muc", "mux"], "corpus": ["pool", "waitn", "cv", "mux"]},
    "oracles": {"dead-object", "dead-stack", "stuck", "steplimit", "panic", "crash", "exclusion", "exclusion-ann"},
    "plan": {"quick": [("refcount", 150, 10), ("refcount_mw", 100, 12), ("waitn", 100, 8), ("waitn_rep", 80, 8), ("waitn_f3", 60, 8), ("cv", 80, 8), ("muc", 40, 6), ("cancel_only", 80, 8), ("note", 60, 8), ("note_wc", 100, 10), ("cancel_children", 60, 10), ("refcount@ps", 100, 10), ("waitn_rep@ps", 60, 8), ("cv@ps", 60, 8)],
             "thorough": [("refcount", 1500, 20), ("refcount_mw", 1000, 24), ("waitn", 1000, 16), ("waitn_rep", 800, 16), ("waitn_f3", 600, 16), ("cv", 800, 16), ("muc", 400, 12), ("cancel_only", 800, 16), ("note", 600, 16), ("note_wc", 1000, 20), ("cancel_children", 600, 20), ("refcount@ps", 1000, 20), ("waitn_rep@ps", 600, 16), ("cv@ps", 600, 16)]},
    "harness_args": ["checkplain=1"],
    "level_text": "Kernel-checked theorems: (mutex, MuQ model) once a thread inside nsync_mu_unlock / runlock / unlock_slow owns neither a share nor the spinlock, no later step of that call touches the mutex, and the step that crosses that point is a successful CAS on the word (C13_release_point, C13_release_is_last_needed): whoever acquires afterwards and frees the memory races with nothing; (cv, CvFix model of the repaired cv.c) every access to a waiter record by a thread other than its owner happens while the record is queued or on that waker's private list with its owner still inside the wait, for pooled records and for nsync_wait_n records alike, and the owner returns only after the record is on no list (C13_record_touch, C13_record_touch_nw_full_true, C13_owner_returns_clean[_waitn]); the V that follows the waker's last store touches no record (C13_late_V_touches_nothing); (nsync_wait_n, WaitN model) every access by a non-owner to a record of notes / counters / cvs is to a registered record, and at the return no record of the call is registered, queued or on a waker's list (C13_record_lifetime, C13_owner_returns_after); (cancellable cv / mu waits, SemWait model of sem_wait.c with the note-side walk of note.c) every access by a notifier to the on-stack record of nsync_sem_wait_with_cancel_ happens under the note's mutex with the record at the head of the note's list or just popped, while the owner is between its enqueue and the return of its final nsync_mu_lock (&note_mu), and the owner returns with the record on no list and no post owed (C13_cancel_record_touch, C13_cancel_owner_returns_clean). The waiter-pool contract all these layers assume is itself modelled and proved (Pool layer over common.c: a waiter struct is in use by at most one call at a time, the free list holds exactly the idle non-reserved structs and is touched only under its spinlock, `remove_count` / `waiting` / `flags` / `sem` are written by pool code only in the initialisation block — so remove_count is monotone across reuses —, a thread's reserved struct comes back to that thread: Pool_exclusive, Pool_free_list_inv, Pool_init, Pool_remove_count_monotone, Pool_reserved). Tied to the code by lockstep (refcount / waitn* / cv / muc families through the matching acceptors) and by the runtime's liveness tracking: every atomic AND plain access (TSan instrumentation) of every explored execution is checked against reclaimed heap blocks, reclaimed mutexes and dead stack records (oracles dead-object, dead-stack). For notes (Props/C13Note over the Note model, WAIT_FOR_NO_CHILDREN releasing the mutex in the middle of a notification): a thread in the wake loop of a note holds its mutex, whoever else holds it and finds the note notified finds n->waiters empty, so a dequeuer that decides 'not still queued' from the flag leaves no record behind and no wake loop pending (C13_note_wake_loop_holds_lock, C13_note_locked_notified_has_no_waiters, C13_note_dequeue_leaves_nothing).",
    "level_note": "The SemWait layer models ONE flat cancel note per record (parents enter through an `inherit` event) and protocol-driven notifiers; the forest is the Note layer's business. Defect F3 (found by this property's oracle) is repaired in /repo; the pre-repair model and refutation are kept (Props/C13Cv.lean). Sampled correspondence.",
}

MC = "NsyncVerif.MuC."
PROPS["C05"] = {
    "imports": ["NsyncVerif.Props.C05CvFix", "NsyncVerif.Props.C05Mu", "NsyncVerif.Props.C05Cancel"],
    "theorems": ["NsyncVerif.CvFix." + t for t in ["C05_result_is_outcome", "C05_timedout", "C05_cancelled", "C05_no_resleep", "C05_not_sleeping"]] +
                [MC + t for t in ["C05_mode", "C05_mode_recorded", "C05_mu_wait_0", "C05_timedout", "C05_cancelled", "C05_no_resleep_partial", "C05_timed_p_deadline", "C05_no_resleep_full_refuted"]] +
                ["SemWait." + t for t in ["C05_cancel_reason", "C05_cancel_reason_enqueued", "C05_cancel_consumed_step", "C05_cancel_zero_takes_token", "C05_cancel_no_missed",
                 "C05_cancel_unlock_needs_empty", "C05_cancel_p_deadline", "C05_cancel_deadline_bound", "C05_cancel_l65_notified"]],
    "layers": ["cv", "mux"],
    "family_layers": {"cv": ["semwait", "cv", "mux"], "cv_raw": ["cv", "mux"], "muwait": ["muc", "mux"], "muc": ["semwait", "muc", "mux"], "cancel_only": ["semwait", "cv", "muc", "mux"], "cancel_children": ["semwait", "mux"], "longwait_timeout": ["muc", "mux"], "timed_contended": ["cv", "muc", "mux"], "muc_cv": ["cv", "muc", "mux"]},
    "oracles": {"early-timeout", "bad-cancel", "bad-result", "muwait-result", "swallowed-wakeup", "exclusion", "exclusion-ann", "stuck", "steplimit", "panic", "crash", "dead-object", "cv-woken-asleep", "muwait-missed", "lock-missed"},
    "plan": {"quick": [("cv", 120, 8), ("cv_raw", 40, 8), ("muwait", 100, 8), ("muc", 80, 6), ("cancel_only", 120, 10), ("cancel_children", 80, 10), ("timed_contended", 100, 10), ("longwait_timeout", 30, 6), ("muc_cv", 80, 8)],
             "thorough": [("cv", 1200, 16), ("cv_raw", 400, 16), ("muwait", 1000, 16), ("muc", 800, 12), ("cancel_only", 1200, 20), ("cancel_children", 800, 20), ("timed_contended", 1000, 20), ("longwait_timeout", 300, 10), ("muc_cv", 800, 16)]},
    "harness_args": ["checkplain=1"],
    "level_text": "Kernel-checked theorems. cv half (CvFix model of cv.c + sem_wait.c): the value returned by nsync_cv_wait_with_deadline is the recorded outcome of the sleep (C05_result_is_outcome); ETIMEDOUT only with the deadline reached on the model clock, ECANCELED only with the cancel note notified (C05_timedout, C05_cancelled); once the outcome is non-zero the thread performs no further semaphore wait in this call before re-acquiring the mutex (C05_no_resleep, C05_not_sleeping). mu_wait half (MuC model of mu_wait.c on top of the mutex core): the call returns holding the mutex in the mode it was called with (C05_mode), returns 0 exactly when the condition is true at the return (C05_mu_wait_0), ETIMEDOUT / ECANCELED only for the stated reason (C05_timedout, C05_cancelled), a timed P never outlasts the deadline (C05_timed_p_deadline), and after a non-zero outcome no P is issued in that pass of the wait loop (C05_no_resleep_partial). The shared sleep nsync_sem_wait_with_cancel_ (SemWait model: sem_wait.c with the note concretely — flag, deadline, list, mutex): ECANCELED only with the note notified or expired, ETIMEDOUT only with the deadline reached, 0 only with a token consumed (C05_cancel_reason); the P is issued with min(deadline, note expiry) and a timeout with the note's deadline nearer is converted to ECANCELED after the waiter itself notified the note (C05_cancel_p_deadline, C05_cancel_deadline_bound); and 'needs no further wake-up' in safety form: a notified note never leaves a waiter asleep unless its record is queued with the notifier holding the note's mutex, or a post is owed or pending (C05_cancel_no_missed — the control trace with the re-read under the lock removed is accepted by the variant model and ends with the waiter lost). Tied to the code by lockstep (cv / cv_raw families through CvFix, muwait / muc families through MuC, with cancel notes fresh / already notified / expiring, reader and writer mode) and by the interpreter's assertions on every wait return (shadow lock mode, virtual clock vs deadline, note flag, value of the condition).",
    "level_note": "The literal reading 'no further semaphore wait' is REFUTED for nsync_mu_wait_with_deadline (C05_no_resleep_full_refuted: a timed-out waiter re-acquires through lock_slow and may sleep there; with the condition false it goes round the loop again with an already expired deadline) — this is consistent with the property's own wording ('returns as soon as the mutex can be re-acquired'), so it is not a finding. 'Holding the lock in the same mode' for the cv half rests on the mutex layer (C01/C02) and the interpreter's shadow mode. The cancel note is abstract in the CvFix and MuC models (they assume the waiter's own lazy-expiry notify does not sleep — with children of the cancel note being disconnected it may, in WAIT_FOR_NO_CHILDREN; such executions, family cancel_children, are replayed through SemWait and MuX only) and concrete in SemWait (one flat note per record). Fair termination is a paper step; termination of every explored execution is checked (oracle stuck).",
}

PROPS["C06"] = {
    "imports": ["NsyncVerif.Props.C06"],
    "theorems": [MC + t for t in ["C06_cond_under_lock", "C06_inv_lock", "C06_inv_spin", "C06_inv_queue", "C06_hint_partial", "C06_hint", "C06_hint_all_false",
                 "C06_samecond_ring_sound", "C06_skip_sound", "C06_samecond_ring_partial", "C06_samecond_ring_full_refuted",
                 "C06_true_cond_has_responsible", "C06_desig_waker_justified", "C06_no_missed_cond", "C06_no_stuck_state_partial",
                 "C06_without_wakeup_sound", "C06_without_wakeup_no_missed", "C06_without_wakeup_sound_full_refuted",
                 "C06_no_stuck_state_old_code_witness", "C06_no_missed_cond_old_code_witness", "C06_quiescent_witness",
                 "C06_no_stuck_state", "C06_writer_waiting_justified", "C06_long_wait_justified", "C06_responsible", "C06_responsible_pending",
                 "C06_timeout_store_clean", "C06_lock_slow_record", "C06_quiescent_no_plain_waiter"]],
    "layers": ["muc", "mux"],
    "family_layers": {"muc_cv": ["cv", "muc", "mux"]},
    "tie": ["NsyncVerif.Proofs.TieConsts"],
    "oracles": {"cv-woken-asleep", "cond-under-lock", "muwait-result", "muwait-missed", "lock-missed", "stuck", "steplimit", "panic", "crash", "exclusion", "exclusion-ann", "early-timeout", "bad-cancel", "bad-result"},
    "plan": {"quick": [("muc", 160, 8), ("muwait", 100, 8), ("timed_contended", 80, 10), ("muc_eqmix", 100, 10), ("muc_cv", 80, 8), ("longwait_timeout", 30, 6), ("starve_mix", 20, 8), ("nw_release", 80, 8)],
             "thorough": [("muc", 1600, 16), ("muwait", 1000, 16), ("timed_contended", 800, 20), ("muc_eqmix", 1000, 20), ("muc_cv", 800, 16), ("longwait_timeout", 300, 10), ("starve_mix", 200, 12), ("nw_release", 800, 16)]},
    "level_text": "Kernel-checked theorems over the MuC model (mu.c + mu_wait.c — as repaired by ace4c21 — statement by statement: condition records, same-condition rings, unlock_slow's scan with condition evaluation, MU_CONDITION / MU_ALL_FALSE hints, timeouts and cancellations, unlock_without_wakeup; any number of threads): every condition is evaluated by a thread that owns a share of the lock or the writer bit, never concurrently with another thread's write critical section, and it is the condition the queue record prescribes with the value the protected data gives (C06_cond_under_lock); the lock / spinlock / queue invariants (C06_inv_lock, C06_inv_spin, C06_inv_queue); the ring invariant is inductive and the skip over a same-condition ring passes only waiters whose condition is false on the current data (C06_samecond_ring_sound, C06_skip_sound); both hint bits mean what common.h says — MU_CONDITION clear: no queued waiter has a condition; MU_ALL_FALSE set: every queued condition is false on the data as they were when the current write section began (C06_hint, C06_hint_all_false); NO MISSED CONDITION (C06_no_missed_cond): in every reachable state in which a queued waiter's condition is true (and unlock_without_wakeup's contract was kept) some thread is responsible for it — it holds a share, or is an unlocker / a woken thread in flight, or has timed out and is re-acquiring (C06_true_cond_has_responsible); MU_DESIG_WAKER is never set without such a thread (C06_desig_waker_justified); a release by unlock_without_wakeup leaves asleep only waiters whose conditions are false on the data, or somebody else is responsible (C06_without_wakeup_sound, C06_without_wakeup_no_missed); NO STUCK STATE (C06_no_stuck_state): in a reachable quiescent state every sleeper is a condition waiter that is queued with a condition that is false — in particular nobody sleeps inside nsync_mu_lock / rlock; this rests on 'the hints are never stale' for the model with conditional critical sections: MU_WRITER_WAITING set implies a writer that justifies it (C06_writer_waiting_justified), MU_LONG_WAIT set implies a long waiter queued or in flight (C06_long_wait_justified), and every queued sleeper whose condition is true or absent has somebody responsible (C06_responsible). Tied to the code by lockstep replay of the muc / muwait / muc_eqmix / timed_contended families through the MuC acceptor — which checks, on every explored execution, which conditions the scan evaluates, which waiters it wakes and every word value — and by the interpreter's oracles: stuck, muwait-missed (a waiter asleep at quiescence although its condition is true and the mutex is free), cond-under-lock.",
    "level_note": "Found while proving these invariants: defect F8 (mu_wait.c decided from a stale word whether its release must wake waiters — repaired in /repo, ace4c21; what the pinned code did is recorded by C06_no_missed_cond_old_code_witness / C06_no_stuck_state_old_code_witness against the old rule, and by the corpus regressions). Every `_full` statement of Props/C06.lean is now proved, or refuted and proved in corrected form. The literal C06_without_wakeup_sound_full is refuted as stated (the fast path is also taken under MU_DESIG_WAKER) and proved in corrected form. 'Rings are maximal runs' is refuted — harmless. 'Returns once its condition has been made true' is the safety form (somebody responsible exists); fair termination is a paper step."
}
for k in ("C05", "C06", "C11", "C13"):
    NOT_YET.pop(k, None)


# G4: source fingerprints of the functions each acceptor layer models (Proofs/TieSrc/<Layer>.lean); a property inherits
# the ties of every layer it replays (incl. the per-family ones) and of the layers its theorems are about.
LAYER_SRC = {"pool": "Pool", "muq": "Muq", "muc": "Muc", "cv": "Cv", "cvmu": "Cv", "waitn": "Waitn", "semwait": "Semwait", "note": "Note", "counter": "Counter",
             "once": "Once", "futex": "Futex", "time": "Time", "emit": "Emit", "dll": "Dll", "deadline": "Deadline"}
EXTRA_SRC = {"C04": ["Waitn"], "C01": ["Muc"], "C03": ["Muq", "Note"], "C13": ["Muq", "Note"], "C08": ["Semwait"], "C15": ["Futex", "Time"], "C16": ["Emit", "Muq", "Muc"], "C17": ["Dll"], "C18": ["Time"], "C14": ["Muq", "Cv"], "C02": ["Muq", "Muc"]}
for _pid, _spec in PROPS.items():
    _ls = list(_spec.get("layers", []))
    for _v in _spec.get("family_layers", {}).values():
        _ls += _v
    _mods = []
    for _l in _ls:
        if _l in LAYER_SRC and LAYER_SRC[_l] not in _mods:
            _mods.append(LAYER_SRC[_l])
    for _m in EXTRA_SRC.get(_pid, []):
        if _m not in _mods: _mods.append(_m)
    _spec["tie"] = list(_spec.get("tie", [])) + ["NsyncVerif.Proofs.TieSrc." + _m for _m in _mods]
